"""Engine R: owned randomness, simulated clock, scheduled worker pool (DESIGN.md section 6).

For the duration of a run the module attributes random.* and numpy.random.* used by
hypergraphx are rebound to a Facade that delegates to private seeded generators, logs every
draw, and - only for callers inside hypergraphx, only at a random subset of call sites, at a
per-run rate - replaces the fair draw by another value of non-zero probability under the
real distribution ("buggify": i == j, a repeated sample, 0.0 / 0.9999999, identity
permutation ...).  np.random.default_rng is wrapped so that hypergraphx callers receive a
logging / buggifying Generator proxy."""
import hashlib
import random as _random
import sys

import numpy as np

from .core import derive

_PY_NAMES = ["seed", "random", "sample", "randint", "choice", "shuffle", "uniform", "choices", "randrange"]
_NP_NAMES = ["seed", "rand", "random", "random_sample", "randint", "choice", "exponential", "uniform",
             "permutation", "shuffle", "normal", "poisson"]
UNIT_POINTS = [0.0, 0.25, 0.4999999, 0.5, 0.75, 0.9999999]


class DrawBudgetExceeded(BaseException):
    """Liveness: the code under test kept drawing past the cap although overrides had stopped."""


def _site(depth=2):
    f = sys._getframe(depth)
    mod = f.f_globals.get("__name__", "")
    if mod.startswith("hypergraphx"):
        return f"{mod}:{f.f_lineno}"
    return None


class Facade:
    def __init__(self, seed, q=0.0, site_frac=0.6, budget=300000, stretch=None):
        self.seed0 = seed
        self.q = q
        self.site_frac = site_frac
        self.budget = budget
        self.stretch = stretch  # optional forced value for unit draws: ("lo"|"hi", length)
        self._prev = {}
        self._consec = {}
        self._stretch_left = {}
        self._stretch_left = {}
        self.reseed(seed)
        self.h = hashlib.blake2b(digest_size=12)
        self.ndraws = 0
        self.noverrides = 0
        self.by_api = {}
        self.over_by_api = {}
        self.head = []
        self._saved = None
        self.sut_seed_calls = 0
        self.samples_served = []  # (site, population size, result) of every random.sample call

    # ------------------------------------------------------------ plumbing
    def reseed(self, s, which=("py", "np")):
        s = 0 if s is None else s
        if "py" in which:
            self.py = _random.Random(derive(self.seed0, "py", s))
        if "np" in which:
            self.np = np.random.RandomState(derive(self.seed0, "np", s) & 0xFFFFFFFF)
        self.bug = _random.Random(derive(self.seed0, "bug", s))
        # override memory is part of the stream state: a re-seed by the code under test resets it
        self._prev = {}
        self._consec = {}
        self._stretch_left = {}

    def _log(self, site, api, value, over):
        self.ndraws += 1
        if self.ndraws > self.budget:
            raise DrawBudgetExceeded(f"{self.ndraws} draws (last site {site})")
        if site is None:
            return
        self.by_api[api] = self.by_api.get(api, 0) + 1
        if over:
            self.noverrides += 1
            self.over_by_api[api] = self.over_by_api.get(api, 0) + 1
        r = repr(value)
        if len(r) > 120:
            r = hashlib.blake2b(r.encode(), digest_size=8).hexdigest()
        rec = f"{site}|{api}|{r}|{int(over)}"
        self.h.update(rec.encode())
        if len(self.head) < 12:
            self.head.append(rec)

    def _over(self, site):
        """Should this draw be replaced by a legal-but-rare outcome?"""
        if site is None or self.q <= 0 or self.ndraws > 0.75 * self.budget:
            return False
        if (derive(self.seed0, "site", site) % 1000) / 1000.0 >= self.site_frac:
            return False
        if self._consec.get(site, 0) >= 8:
            self._consec[site] = 0
            return False
        if self.bug.random() < self.q:
            self._consec[site] = self._consec.get(site, 0) + 1
            return True
        self._consec[site] = 0
        return False

    def digest(self):
        return self.h.hexdigest()

    def stats(self):
        return {"draws": dict(self.by_api), "overrides": dict(self.over_by_api)}

    def perturb(self, n=3):
        """'Somebody else drew': advance the streams between two calls of the code under test."""
        for _ in range(n):
            self.py.random()
            self.np.random_sample()
            self.bug.random()
            if self._saved is not None:
                self._saved[0]["random"]()
                self._saved[1]["random_sample"]()

    # ------------------------------------------------------- python random.*
    def py_seed(self, s=None, *a, **k):
        if _site() is not None:
            self.sut_seed_calls += 1
        self.reseed(("py", s), which=("py",))

    def py_random(self):
        site = _site()
        if self._over(site):
            v = self.bug.choice(UNIT_POINTS)
            self._log(site, "random.random", v, True)
            return v
        v = self.py.random()
        self._log(site, "random.random", v, False)
        return v

    def py_uniform(self, a, b):
        v = a + (b - a) * self.py.random()
        self._log(_site(), "random.uniform", v, False)
        return v

    def py_sample(self, population, k, **kw):
        site = _site()
        pop = list(population)
        if self._over(site) and 0 <= k <= len(pop):
            key = ("sample", site, len(pop), k)
            mode = self.bug.choice(["prev", "first", "last"])
            prev = self._prev.get(key)
            if mode == "prev" and prev is not None and all(x in pop for x in prev):
                v = list(prev)
            elif mode == "last":
                v = pop[len(pop) - k:]
            else:
                v = pop[:k]
            self._prev[key] = list(v)
            self.samples_served.append((site, len(pop), list(v)))
            self._log(site, "random.sample", v, True)
            return v
        v = self.py.sample(pop, k)
        self.samples_served.append((site, len(pop), list(v)))
        self._prev[("sample", site, len(pop), k)] = list(v)
        self._log(site, "random.sample", v, False)
        return v

    def py_randint(self, a, b):
        site = _site()
        if self._over(site):
            prev = self._prev.get(("randint", a, b))
            v = self.bug.choice([a, b] + ([prev] if prev is not None else []))
            self._log(site, "random.randint", v, True)
        else:
            v = self.py.randint(a, b)
            self._log(site, "random.randint", v, False)
        self._prev[("randint", a, b)] = v
        return v

    def py_randrange(self, *a):
        v = self.py.randrange(*a)
        self._log(_site(), "random.randrange", v, False)
        return v

    def py_choice(self, seq):
        site = _site()
        if self._over(site) and len(seq) > 0:
            v = seq[0] if self.bug.random() < 0.5 else seq[len(seq) - 1]
            self._log(site, "random.choice", v, True)
            return v
        v = self.py.choice(seq)
        self._log(site, "random.choice", v, False)
        return v

    def py_choices(self, population, weights=None, *, cum_weights=None, k=1):
        v = self.py.choices(population, weights, cum_weights=cum_weights, k=k)
        self._log(_site(), "random.choices", v, False)
        return v

    def py_shuffle(self, x):
        site = _site()
        if self._over(site):
            if self.bug.random() < 0.5:
                x.reverse()
            self._log(site, "random.shuffle", list(x), True)
            return
        self.py.shuffle(x)
        self._log(site, "random.shuffle", list(x), False)

    # --------------------------------------------------------- numpy.random.*
    def np_seed(self, s=None):
        if _site() is not None:
            self.sut_seed_calls += 1
        self.reseed(("np", s), which=("np",))

    def _unit(self, site, api, size=None):
        if size is None and site is not None and self.stretch in ("lo", "hi"):
            v = 0.0 if self.stretch == "lo" else 0.9999999
            self._log(site, api, v, True)
            return v
        if size is None and self._over(site):
            v = self.bug.choice(UNIT_POINTS)
            self._log(site, api, v, True)
            return v
        v = self.np.random_sample(size)
        self._log(site, api, v if size is None else np.asarray(v).tolist(), False)
        return v

    def np_rand(self, *shape):
        site = _site()
        if shape:
            v = self.np.random_sample(shape)
            self._log(site, "np.rand", v.tolist(), False)
            return v
        return self._unit(site, "np.rand")

    def np_random(self, size=None):
        return self._unit(_site(), "np.random", size)

    def np_random_sample(self, size=None):
        return self._unit(_site(), "np.random_sample", size)

    def np_uniform(self, low=0.0, high=1.0, size=None):
        v = self.np.uniform(low, high, size)
        self._log(_site(), "np.uniform", np.asarray(v).tolist(), False)
        return v

    def np_randint(self, low, high=None, size=None, dtype=int):
        site = _site()
        lo, hi = (0, low) if high is None else (low, high)
        left = self._stretch_left.get(site, 0)
        if left > 0 and isinstance(size, int) and size == 2 and self._prev.get(("npri", lo, hi)) is not None \
                and self.ndraws < 0.75 * self.budget:
            # a long run of the same (legal) pair: rejection loops must cope with any finite number of repeats
            self._stretch_left[site] = left - 1
            v = np.array(self._prev[("npri", lo, hi)])
            self._log(site, "np.randint", v.tolist(), True)
            return v
        if self._over(site) and isinstance(size, int) and size == 2 and hi - lo >= 1:
            if self.bug.random() < 0.15:
                self._stretch_left[site] = self.bug.choice([20, 60, 120])
            prev = self._prev.get(("npri", lo, hi))
            mode = self.bug.choice(["same", "prev", "ends"])
            if mode == "prev" and prev is not None:
                v = np.array(prev)
            elif mode == "ends":
                v = np.array([lo, hi - 1])
            else:
                k = self.bug.randrange(lo, hi)
                v = np.array([k, k])
            self._log(site, "np.randint", v.tolist(), True)
        else:
            v = self.np.randint(low, high, size, dtype)
            self._log(site, "np.randint", np.asarray(v).tolist(), False)
        if isinstance(size, int) and size == 2:
            self._prev[("npri", lo, hi)] = np.asarray(v).tolist()
        return v

    def np_choice(self, a, size=None, replace=True, p=None):
        site = _site()
        if self._over(site):
            pop = np.arange(a) if isinstance(a, (int, np.integer)) else np.asarray(a)
            n = len(pop)
            pp = None if p is None else np.asarray(p, dtype=float)
            support = [i for i in range(n) if pp is None or pp[i] > 0]
            k = 1 if size is None else int(size) if isinstance(size, (int, np.integer)) else None
            if k is not None and support and (replace or k <= len(support)):
                key = ("npchoice", site, n, k)
                prev = self._prev.get(key)
                mode = self.bug.choice(["prev", "first", "last"])
                if mode == "prev" and prev is not None and all(i in support for i in prev):
                    idx = list(prev)
                elif mode == "last":
                    idx = support[len(support) - k:] if not replace else [support[-1]] * k
                else:
                    idx = support[:k] if not replace else [support[0]] * k
                self._prev[key] = list(idx)
                v = pop[idx[0]] if size is None else pop[idx]
                self._log(site, "np.choice", np.asarray(v).tolist(), True)
                return v
        v = self.np.choice(a, size, replace, p)
        if size is not None and isinstance(size, (int, np.integer)):
            pop = np.arange(a) if isinstance(a, (int, np.integer)) else np.asarray(a)
            try:
                lookup = {x: i for i, x in enumerate(pop.tolist())}
                self._prev[("npchoice", site, len(pop), int(size))] = [lookup[x] for x in np.asarray(v).tolist()]
            except TypeError:
                pass
        self._log(site, "np.choice", np.asarray(v).tolist(), False)
        return v

    def np_exponential(self, scale=1.0, size=None):
        v = self.np.exponential(scale, size)
        self._log(_site(), "np.exponential", np.asarray(v).tolist(), False)
        return v

    def np_normal(self, loc=0.0, scale=1.0, size=None):
        v = self.np.normal(loc, scale, size)
        self._log(_site(), "np.normal", np.asarray(v).tolist(), False)
        return v

    def np_poisson(self, lam=1.0, size=None):
        v = self.np.poisson(lam, size)
        self._log(_site(), "np.poisson", np.asarray(v).tolist(), False)
        return v

    def np_permutation(self, x):
        site = _site()
        if self._over(site):
            arr = np.arange(x) if isinstance(x, (int, np.integer)) else np.array(list(x))
            mode = self.bug.choice(["identity", "reverse", "rotate"])
            if mode == "reverse":
                arr = arr[::-1].copy()
            elif mode == "rotate" and len(arr) > 1:
                arr = np.roll(arr, self.bug.randrange(1, len(arr)))
            self._log(site, "np.permutation", arr.tolist(), True)
            return arr
        v = self.np.permutation(x)
        self._log(site, "np.permutation", np.asarray(v).tolist(), False)
        return v

    def np_shuffle(self, x):
        self.np.shuffle(x)
        self._log(_site(), "np.shuffle", np.asarray(x).tolist(), False)

    # -------------------------------------------------------------- Generator
    def default_rng(self, seed=None):
        site = _site()
        if site is None:
            return self._real_default_rng(seed if seed is not None else self.py.getrandbits(63))
        if seed is None:
            seed = self.py.getrandbits(63)
        return GenProxy(self, self._real_default_rng(seed), seed)

    # ---------------------------------------------------------------- install
    def install(self):
        if self._saved is not None:
            return
        self._saved = ({n: getattr(_random, n) for n in _PY_NAMES}, {n: getattr(np.random, n) for n in _NP_NAMES},
                       np.random.default_rng)
        self._real_default_rng = np.random.default_rng
        # code that bypasses the front-ends (sklearn's check_random_state(None), `from random import ...`) reaches the real
        # global generators: make them a function of the run seed too, so that such a run is repeatable yet differs from a
        # run with another facade seed
        self._saved_states = (_random.getstate(), np.random.get_state())
        self._saved[0]["seed"](derive(self.seed0, "real-global-py"))
        self._saved[1]["seed"](derive(self.seed0, "real-global-np") & 0xFFFFFFFF)
        for n in _PY_NAMES:
            setattr(_random, n, getattr(self, "py_" + n))
        for n in _NP_NAMES:
            setattr(np.random, n, getattr(self, "np_" + n))
        np.random.default_rng = self.default_rng

    def uninstall(self):
        if self._saved is None:
            return
        py, npn, drng = self._saved
        for n, f in py.items():
            setattr(_random, n, f)
        for n, f in npn.items():
            setattr(np.random, n, f)
        np.random.default_rng = drng
        _random.setstate(self._saved_states[0])
        np.random.set_state(self._saved_states[1])
        self._saved = None

    def __enter__(self):
        self.install()
        return self

    def __exit__(self, *a):
        self.uninstall()
        return False


class GenProxy:
    """Delegating stand-in for numpy.random.Generator, handed to hypergraphx callers only."""

    def __init__(self, facade, gen, seed):
        self._f = facade
        self._g = gen
        self._seed = seed
        self._bug = _random.Random(derive(facade.seed0, "genbug", seed))
        self._stretch = 0
        self._stretch_v = 0.0

    def _over(self, site):
        f = self._f
        if f.q <= 0 or f.ndraws > 0.75 * f.budget:
            return False
        if (derive(f.seed0, "site", site) % 1000) / 1000.0 >= f.site_frac:
            return False
        return self._bug.random() < f.q

    def random(self, size=None, *a, **k):
        site = _site()
        if size is None:
            if self._stretch > 0:
                self._stretch -= 1
                self._f._log(site, "gen.random", self._stretch_v, True)
                return self._stretch_v
            if self._over(site):
                # a stretch of forced accepts (0.0) or near-certain rejects (just below 1)
                self._stretch = self._bug.randrange(0, 6)
                self._stretch_v = self._bug.choice([0.0, 0.9999999])
                self._f._log(site, "gen.random", self._stretch_v, True)
                return self._stretch_v
        v = self._g.random(size, *a, **k)
        if size is not None and site is not None and self._over(site):
            # legal-but-rare initial draws: some entries at the extremes of (0, 1)
            v = np.array(v, dtype=float)
            flat = v.reshape(-1)
            for i in range(len(flat)):
                if self._bug.random() < 0.3:
                    flat[i] = self._bug.choice([1e-6, 0.9999999, 0.5])
            self._f._log(site, "gen.random", flat.tolist(), True)
            return v
        self._f._log(site, "gen.random", np.asarray(v).tolist(), False)
        return v

    def choice(self, a, size=None, replace=True, p=None, *args, **kw):
        site = _site()
        if self._over(site) and p is None and isinstance(a, (int, np.integer)) and isinstance(size, int) \
                and not replace and size <= a:
            key = ("genchoice", site, int(a), size)
            prev = self._f._prev.get(key)
            if prev is not None and self._bug.random() < 0.6:
                v = np.array(prev)
            else:
                v = np.arange(size) if self._bug.random() < 0.5 else np.arange(a - size, a)
            self._f._prev[key] = v.tolist()
            self._f._log(site, "gen.choice", v.tolist(), True)
            return v
        v = self._g.choice(a, size, replace, p, *args, **kw)
        if p is None and isinstance(a, (int, np.integer)) and isinstance(size, int):
            self._f._prev[("genchoice", site, int(a), size)] = np.asarray(v).tolist()
        self._f._log(site, "gen.choice", np.asarray(v).tolist(), False)
        return v

    def __getattr__(self, name):
        attr = getattr(self._g, name)
        if not callable(attr):
            return attr
        f = self._f

        def call(*a, **k):
            v = attr(*a, **k)
            try:
                f._log(_site(), "gen." + name, np.asarray(v).tolist(), False)
            except Exception:
                f._log(_site(), "gen." + name, "?", False)
            return v

        return call


# ----------------------------------------------------------------- clock and pool
class SimClock:
    """time.time() replacement: monotone, or with jumps / stalls / backward steps."""

    def __init__(self, seed, mode="monotone"):
        self.r = _random.Random(derive(seed, "clock"))
        self.mode = mode
        self.now = 1.7e9 + self.r.random() * 1e6
        self.reads = 0
        self.events = {"jump": 0, "stall": 0, "backward": 0}

    def time(self):
        self.reads += 1
        if self.mode == "monotone":
            self.now += self.r.random() * 0.01
        else:
            x = self.r.random()
            if x < 0.15:
                self.now += 1e6
                self.events["jump"] += 1
            elif x < 0.35:
                self.events["stall"] += 1
            elif x < 0.5:
                self.now -= self.r.random() * 1000
                self.events["backward"] += 1
            else:
                self.now += self.r.random()
        return self.now

    # every way of reading a clock is the same simulated clock; whatever else the module `time` offers (sleep aside)
    # is the real thing - the library may switch from time.time() to time.perf_counter() without the simulator noticing
    def perf_counter(self):
        return self.time()

    def monotonic(self):
        return self.time()

    def process_time(self):
        return self.time()

    def time_ns(self):
        return int(self.time() * 1e9)

    def perf_counter_ns(self):
        return int(self.time() * 1e9)

    def monotonic_ns(self):
        return int(self.time() * 1e9)

    def sleep(self, seconds):
        self.now += max(0.0, float(seconds))  # simulated: no real waiting

    def __getattr__(self, name):
        import time as _time

        return getattr(_time, name)


class _Async:
    def __init__(self, v):
        self._v = v

    def get(self, timeout=None):
        return self._v

    def wait(self, timeout=None):
        return None

    def ready(self):
        return True

    def successful(self):
        return True


class SimPool:
    """In-process stand-in for multiprocessing.Pool: tasks run in a seeded permutation and in
    seeded chunks; map() returns in task order (its contract), imap_unordered in execution order."""

    rng = None
    stats = None

    def __init__(self, processes=None, *a, **k):
        self.processes = processes
        SimPool.stats["pools"] = SimPool.stats.get("pools", 0) + 1
        SimPool.stats.setdefault("worker_counts", {})
        key = str(processes)
        SimPool.stats["worker_counts"][key] = SimPool.stats["worker_counts"].get(key, 0) + 1

    def _order(self, n):
        order = list(range(n))
        r = SimPool.rng
        mode = r.choice(["shuffle", "reverse", "chunks", "identity"])
        if mode == "shuffle":
            r.shuffle(order)
        elif mode == "reverse":
            order.reverse()
        elif mode == "chunks" and n > 1:
            c = r.randint(1, max(1, n // 2))
            chunks = [order[i:i + c] for i in range(0, n, c)]
            r.shuffle(chunks)
            order = [i for ch in chunks for i in ch]
        SimPool.stats["orders"] = SimPool.stats.get("orders", {})
        SimPool.stats["orders"][mode] = SimPool.stats["orders"].get(mode, 0) + 1
        if order != list(range(n)):
            SimPool.stats["permuted_maps"] = SimPool.stats.get("permuted_maps", 0) + 1
        return order

    def _run(self, func, items, star=False):
        items = list(items)
        order = self._order(len(items))
        out = [None] * len(items)
        for i in order:
            out[i] = func(*items[i]) if star else func(items[i])
        SimPool.stats["tasks"] = SimPool.stats.get("tasks", 0) + len(items)
        return out, order

    def map(self, func, iterable, chunksize=None):
        return self._run(func, iterable)[0]

    def starmap(self, func, iterable, chunksize=None):
        return self._run(func, iterable, star=True)[0]

    def imap(self, func, iterable, chunksize=1):
        return iter(self._run(func, iterable)[0])

    def imap_unordered(self, func, iterable, chunksize=1):
        out, order = self._run(func, iterable)
        return iter([out[i] for i in order])

    def map_async(self, func, iterable, chunksize=None, callback=None, error_callback=None):
        return _Async(self.map(func, iterable))

    def starmap_async(self, func, iterable, chunksize=None, callback=None, error_callback=None):
        return _Async(self.starmap(func, iterable))

    def apply(self, func, args=(), kwds=None):
        return func(*args, **(kwds or {}))

    def apply_async(self, func, args=(), kwds=None, callback=None, error_callback=None):
        return _Async(func(*args, **(kwds or {})))

    def close(self):
        pass

    def join(self):
        pass

    def terminate(self):
        pass

    def __enter__(self):
        return self

    def __exit__(self, *a):
        return False
