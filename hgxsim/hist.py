"""Engine H: history simulator for the four containers (DESIGN.md section 4).

A *case* is {"kind","weighted","universe",...,"ops":[...]}.  Operations are generated
from the reference model alone (so a seed maps to one history whatever the library does)
and executed against the library and the model in lock step."""
import json
import random

from . import observe as O
from .core import Ambiguous, HarnessError, Violation, cmeta, digest, short, sut, tag
from .models import Model

LABELSETS = {
    "small": [0, 1, 2, 3, 4, 5, 6],
    "big": [-3, 10**12, 7, -100, 42, 1000, 5],
    "str": ["u", "v", "w", "xx", "y", "zed", "k9"],
    "numstr": ["1", "2", "10", "9", "03", "21", "100"],  # strings that sort differently from the numbers they spell
    # distinct integers with colliding hashes: hash(-1) == hash(-2), hash(2**61 - 1) == hash(0), hash(2**61) == hash(1)
    "hashy": [-1, -2, 0, 2**61 - 1, 1, 2**61, 3],
    # ints beyond 2**53 next to non-integral floats: a conversion of the labels to one numpy array rounds the ints
    "mixnum": [0.5, 2.5, 2**60 + 1, 2**53 + 1, 3, -7.25, 10],
    "range16": list(range(16)),
    "str16": ["n%02d" % i for i in range(8)] + ["m%d" % i for i in range(8, 16)],
}
LAYERS = ["a", "b", "c"]
# layer names are arbitrary hashable values: not necessarily mutually comparable, possibly falsy, possibly look-alikes
LAYERSETS = [LAYERS, LAYERS, ["a", 1, "1"], [0, 1, 2], ["", "b", 7]]
MD_KEYS = ["k", "col", "x", "7"]  # "7": a key that is all digits is still a string
MD_VALUES = [0, 1, 2, "r", "s", True, None, 1.5, [1, 2], [2, 1], {"z": 1}, "blue", 3, ["b", "a", "c"], "", False, [], {}, 0.0,
             {"y": 2}, {"z": 2}, {"z": 1, "y": [1]}, {"2020": "a"}]
CRIT_VALUES = [2, 3, "r", "s", "blue", 0, ""]

OPS = {
    "H": ["add_node", "add_nodes", "add_edge", "add_edges", "remove_edge", "remove_edges",
          "remove_node", "remove_nodes", "set_weight", "set_node_md", "set_edge_md", "set_hg_md",
          "set_attr_hg", "set_attr_node", "set_attr_edge", "rm_attr_node", "rm_attr_edge", "clear", "copy"],
    "D": ["add_node", "add_nodes", "add_edge", "add_edges", "remove_edge", "remove_edges",
          "remove_node", "remove_nodes", "set_weight", "set_node_md", "set_edge_md", "set_hg_md",
          "set_attr_hg", "set_attr_node", "set_attr_edge", "rm_attr_node", "rm_attr_edge", "clear", "copy"],
    "T": ["add_node", "add_nodes", "add_edge", "add_edges", "remove_edge",
          "remove_node", "remove_nodes", "set_weight", "set_node_md", "set_edge_md", "set_hg_md",
          "set_attr_hg", "set_attr_node", "set_attr_edge", "rm_attr_node", "rm_attr_edge", "clear", "copy"],
    "M": ["add_node", "add_nodes", "add_edge", "add_edges", "remove_edge", "remove_node",
          "set_weight", "set_hg_md", "set_attr_hg", "set_attr_node", "set_attr_edge",
          "rm_attr_node", "rm_attr_edge", "set_layer_md"],
}
BASE_W = {"add_node": 2, "add_nodes": 2, "add_edge": 10, "add_edges": 4, "remove_edge": 5, "remove_edges": 2,
          "remove_node": 4, "remove_nodes": 1.5, "set_weight": 3, "set_node_md": 2, "set_edge_md": 2,
          "set_hg_md": 0.5, "set_attr_hg": 1, "set_attr_node": 2, "set_attr_edge": 2, "rm_attr_node": 1,
          "rm_attr_edge": 1, "clear": 0.3, "copy": 0.8, "set_layer_md": 1.5}
PROFILES = {
    "balanced": {},
    "removal": {"remove_edge": 3, "remove_edges": 3, "remove_node": 3, "remove_nodes": 3},
    "batch": {"add_edges": 4, "add_nodes": 3, "remove_edges": 3, "remove_nodes": 3},
    "metadata": {"set_node_md": 3, "set_edge_md": 3, "set_attr_node": 3, "set_attr_edge": 3,
                 "rm_attr_node": 3, "rm_attr_edge": 3, "set_attr_hg": 3, "set_hg_md": 3},
    "churn": {"add_edge": 2, "remove_edge": 4, "remove_node": 2},
}


# ------------------------------------------------------------------ generation
class Gen:
    def __init__(self, rng, cfg):
        self.rng = rng
        self.cfg = cfg
        self.kind = cfg["kind"]
        self.U = cfg["universe"]
        self.removed = []  # keys (as op fragments) removed earlier: re-add candidates

    # --- small draws
    def md(self, force=False):
        r = self.rng
        if not force and r.random() >= self.cfg["md_density"]:
            return None
        return {k: r.choice(MD_VALUES) for k in r.sample(MD_KEYS, r.randint(1, 2))}

    def weight(self):
        r = self.rng
        if r.random() < 0.05:
            return 0 if self.cfg["wtype"] == "int" else 0.0  # a zero weight is a weight
        if self.cfg["wtype"] == "int":
            return r.randint(1, 5)
        return r.randint(1, 20) / 4

    def frag(self, model, key):
        """op fragment (JSON args) naming a model key, nodes in a random order."""
        r = self.rng
        sh = lambda s: r.sample(sorted(s, key=tag), len(s))  # noqa
        k = self.kind
        if k == "H":
            return {"e": sh(key)}
        if k == "D":
            return {"e": [sh(key[0]), sh(key[1])]}
        if k == "T":
            return {"e": sh(key[1]), "t": key[0]}
        return {"e": sh(key[0]), "layer": key[1]}

    def rand_frag(self):
        r = self.rng
        k = self.kind
        mx = min(self.cfg["max_size"], len(self.U))
        if k == "D":
            n = r.randint(2, max(2, mx))
            ns = r.sample(self.U, n)
            cut = r.randint(1, n - 1)
            return {"e": [ns[:cut], ns[cut:]]}
        n = r.randint(1, mx) if r.random() < 0.15 else r.randint(min(2, mx), mx)
        f = {"e": r.sample(self.U, n)}
        if k == "T":
            f["t"] = r.randint(0, 6) if not self.cfg.get("big_times") else r.choice([0, 1, 2, 3, 9, 17, 33, 1000, 2**31 - 1, 2**31, 10**12])
        if k == "M":
            f["layer"] = r.choice(self.cfg["layers"])
        return f

    def keys(self, model):
        return sorted(model.edges, key=model.cedge)

    def related_frag(self, model):
        """A hyperedge that stands in a particular relation to one that exists: the same nodes split differently into
        source and target (directed), a subset or superset by one node, the same nodes at another time / in another
        layer.  Returns (fragment, weight of the original) or (None, None)."""
        r = self.rng
        ks = self.keys(model)
        if not ks:
            return None, None
        key = r.choice(ks)
        w0 = model.edges[key][0]
        k = self.kind
        st = lambda s: sorted(s, key=tag)  # noqa
        for _ in range(6):
            if k == "D":
                ns = st(key[0]) + st(key[1])
                if len(ns) < 3 and r.random() < 0.7:
                    f = {"e": [st(key[1]), st(key[0])]}  # the reverse direction
                else:
                    how = r.random()
                    if how < 0.6:
                        cut = r.randint(1, len(ns) - 1)  # same sorted nodes, another boundary
                    else:
                        ns = r.sample(ns, len(ns))
                        cut = r.randint(1, len(ns) - 1)
                    f = {"e": [ns[:cut], ns[cut:]]}
            else:
                nodes = st(model.knodes(key))
                how = r.random()
                extra = [n for n in self.U if n not in nodes]
                if how < 0.4 and len(nodes) > 2:
                    nodes = [n for n in nodes if n != r.choice(nodes)]
                elif how < 0.8 and extra and len(nodes) < min(self.cfg["max_size"], len(self.U)):
                    nodes = nodes + [r.choice(extra)]
                elif k == "H":
                    continue
                f = {"e": r.sample(nodes, len(nodes))}
                if k == "T":
                    f["t"] = key[0] if how < 0.8 else key[0] + r.choice([1, 2])
                if k == "M":
                    f["layer"] = key[1] if how < 0.8 else r.choice(self.cfg["layers"])
            try:
                if model.key(f) not in model.edges:
                    return f, w0
            except Ambiguous:
                pass
        return None, None

    def present_frag(self, model):
        ks = self.keys(model)
        if not ks:
            return None
        return self.frag(model, self.rng.choice(ks))

    def absent_frag(self, model):
        for _ in range(10):
            f = self.rand_frag()
            try:
                if model.key(f) not in model.edges:
                    return f
            except Ambiguous:
                pass
        return None

    def form(self):
        return self.rng.choice(["t", "t", "l"])

    # --- proposals
    def propose_valid(self, model, name):
        r = self.rng
        k = self.kind
        nodes = sorted(model.nodes, key=tag)
        absent_nodes = [n for n in self.U if n not in model.nodes]
        if name == "add_node":
            if absent_nodes and r.random() < 0.7:
                op = {"op": name, "n": r.choice(absent_nodes)}
                md = self.md()
                if md is not None:
                    op["md"] = md
                    if r.random() < 0.3:
                        op["pos"] = 1
                return op
            return {"op": name, "n": r.choice(self.U)}
        if name == "add_nodes":
            if k != "D" and absent_nodes and r.random() < 0.5:
                ns = r.sample(absent_nodes, r.randint(1, len(absent_nodes)))
                return {"op": name, "ns": ns, "mds": [[n, self.md(True) if r.random() < 0.7 else {}] for n in ns]}
            return {"op": name, "ns": r.sample(self.U, r.randint(0, min(4, len(self.U))))}
        if name == "add_edge":
            x = r.random()
            f = None
            if x < 0.25:
                f = self.present_frag(model)
            elif x < 0.40 and self.removed:
                f = dict(r.choice(self.removed))
            rel_w = None
            if f is None and x > 0.8:
                f, rel_w = self.related_frag(model)
            if f is None:
                f = self.rand_frag()
            op = {"op": name, "form": self.form(), **f}
            key = model.key(op)
            if key in model.edges:
                if model.edges[key][1]:
                    op["md"] = json.loads(json.dumps(model.edges[key][1]))
            else:
                md = self.md()
                if md is not None:
                    op["md"] = md
            if model.weighted:
                if rel_w is not None and r.random() < 0.6:
                    op["w"] = rel_w  # the relative carries exactly the weight of the hyperedge it was derived from
                elif r.random() < 0.8:
                    op["w"] = self.weight()
            elif r.random() < 0.2:
                op["w"] = 1
            return op
        if name == "add_edges":
            n = r.randint(0, 4) if r.random() < 0.1 else r.randint(1, 4)
            frags, keys = [], []
            for _ in range(n):
                x = r.random()
                f = self.present_frag(model) if x < 0.2 else None
                if f is None:
                    f = self.rand_frag()
                frags.append(f)
            with_w = model.weighted and r.random() < 0.7
            with_md = r.random() < self.cfg["md_density"]
            mds = []
            seen = {}
            out = []
            for f in frags:
                key = model.key(f)
                if key in seen and with_w:
                    continue
                if key in model.edges:
                    m = json.loads(json.dumps(model.edges[key][1]))
                elif key in seen:
                    m = seen[key]
                else:
                    m = (self.md(True) if r.random() < 0.7 else {}) if with_md else {}
                seen[key] = m
                out.append(f)
                mds.append(m)
            op = {"op": name, "es": [f["e"] for f in out]}
            if k == "T":
                op["ts"] = [f["t"] for f in out]
            if k == "M":
                op["layers"] = [f["layer"] for f in out]
            if with_w:
                op["ws"] = [self.weight() for _ in out]
            if with_md or any(mds):
                op["mds"] = mds
            return op
        if name == "remove_edge":
            f = self.present_frag(model)
            if f is None:
                return None
            self.removed.append(f)
            return {"op": name, "form": self.form(), **f}
        if name == "remove_edges":
            ks = self.keys(model)
            if not ks:
                return None
            sel = r.sample(ks, r.randint(1, min(3, len(ks))))
            fr = [self.frag(model, q) for q in sel]
            self.removed.extend(fr)
            return {"op": name, "es": [f["e"] for f in fr]}
        if name == "remove_node":
            if not nodes:
                return None
            op = {"op": name, "n": r.choice(nodes)}
            if k != "D":
                x = r.random()
                if x < 0.4:
                    op["keep"] = True
                elif x < 0.6:
                    op["keep"] = False
            elif not any(op["n"] in model.knodes(q) for q in model.edges) and r.random() < 0.5:
                op["keep"] = True  # directed: only for a node without incident hyperedges (nothing to shrink)
            elif r.random() < 0.3:
                op["keep"] = False
            for q in model.edges:
                if op["n"] in model.knodes(q):
                    self.removed.append(self.frag(model, q))
            return op
        if name == "remove_nodes":
            if not nodes:
                return None
            op = {"op": name, "ns": r.sample(nodes, r.randint(1, min(3, len(nodes))))}
            if k != "D" and r.random() < 0.4:
                op["keep"] = True
            elif k == "D":
                iso = [n for n in nodes if not any(n in model.knodes(q) for q in model.edges)]
                if iso and r.random() < 0.5:
                    op["ns"] = r.sample(iso, r.randint(1, min(3, len(iso))))
                    op["keep"] = True
            return op
        if name == "set_weight":
            f = self.present_frag(model)
            if f is None:
                return None
            return {"op": name, "form": self.form(), **f, "w": self.weight() if model.weighted else 1}
        if name == "set_node_md":
            if not nodes:
                return None
            return {"op": name, "n": r.choice(nodes), "md": self.md(True) if r.random() < 0.8 else {}}
        if name == "set_edge_md":
            f = self.present_frag(model)
            if f is None:
                return None
            return {"op": name, "form": self.form(), **f, "md": self.md(True) if r.random() < 0.8 else {}}
        if name == "set_hg_md":
            md = self.md(True)
            x = r.random()
            if x < 0.35:
                md["weighted"] = model.weighted
            elif x < 0.6:
                md["weighted"] = not model.weighted  # user metadata may say anything; it is not the object's flag
            elif x < 0.7:
                md["type"] = r.choice(["Hypergraph", "other"])
            return {"op": name, "md": md}
        if name == "set_layer_md":
            # per-layer / dataset-level metadata of a multiplex hypergraph (replace semantics, kept in the hypergraph metadata)
            names = [l for l in self.cfg["layers"] if isinstance(l, str) and l not in ("weighted", "type", "multiplex_metadata")]
            if not names or r.random() < 0.25:
                return {"op": name, "dataset": True, "md": self.md(True) if r.random() < 0.8 else {}}
            return {"op": name, "layer": r.choice(names), "md": self.md(True) if r.random() < 0.8 else {}}
        if name == "set_attr_hg":
            if r.random() < 0.2:
                return {"op": name, "f": "weighted", "v": r.choice([True, False])}
            return {"op": name, "f": r.choice(MD_KEYS + ["name"]), "v": r.choice(MD_VALUES)}
        if name == "set_attr_node":
            if not nodes:
                return None
            return {"op": name, "n": r.choice(nodes), "f": r.choice(MD_KEYS), "v": r.choice(MD_VALUES)}
        if name == "set_attr_edge":
            f = self.present_frag(model)
            if f is None:
                return None
            return {"op": name, "form": self.form(), **f, "f": r.choice(MD_KEYS), "v": r.choice(MD_VALUES)}
        if name == "rm_attr_node":
            cands = [(n, f) for n in nodes for f in sorted(model.nodes[n])]
            if not cands:
                return None
            n, f = r.choice(cands)
            return {"op": name, "n": n, "f": f}
        if name == "rm_attr_edge":
            cands = [(q, f) for q in self.keys(model) for f in sorted(model.edges[q][1])]
            if not cands:
                return None
            q, f = r.choice(cands)
            return {"op": name, "form": self.form(), **self.frag(model, q), "f": f}
        if name == "clear":
            return {"op": name}
        if name == "copy":
            return {"op": name}
        if name == "filter":
            op = {"op": name, "mode": r.choice(["keep", "remove"])}

            def crit():
                return {a: r.sample(CRIT_VALUES, r.randint(1, 3)) for a in r.sample(MD_KEYS, r.randint(0, 2))}

            x = r.random()
            if x < 0.75:
                op["nc"] = crit()
            if x > 0.35:
                op["ec"] = crit()
            if k != "D" and r.random() < 0.35:
                op["keep"] = True
            elif r.random() < 0.3:
                op["keep"] = False
            return op
        raise HarnessError("no generator for " + name)

    def propose_ctor(self, model):
        r = self.rng
        k = self.kind
        op = {"op": "ctor", "_first": True}
        if r.random() < 0.5:
            ns = r.sample(self.U, r.randint(1, len(self.U)))
            op["nmd"] = [[n, self.md(True) if r.random() < 0.7 else {}] for n in ns]
        frs, seen = [], set()
        for _ in range(r.randint(0, 5)):
            f = self.rand_frag()
            key = model.key(f)
            if key not in seen:
                seen.add(key)
                frs.append(f)
        dup = None
        if frs and r.random() < 0.25:
            # the edge list names one hyperedge twice (nodes possibly in another order): without a weight list this is
            # what two add_edge calls do (weight 2 when weighted, idempotent otherwise)
            dup = r.randrange(len(frs))
            f2 = json.loads(json.dumps(frs[dup]))
            if k == "D":
                f2["e"] = [r.sample(f2["e"][0], len(f2["e"][0])), r.sample(f2["e"][1], len(f2["e"][1]))]
            else:
                f2["e"] = r.sample(f2["e"], len(f2["e"]))
            frs.append(f2)
        if frs:
            op["es"] = [f["e"] for f in frs]
            if k == "T":
                op["ts"] = [f["t"] for f in frs]
            if k == "M":
                op["layers"] = [f["layer"] for f in frs]
            if model.weighted and r.random() < 0.7 and dup is None:
                op["ws"] = [self.weight() for _ in frs]
            if r.random() < max(0.3, self.cfg["md_density"]):
                op["mds"] = [self.md(True) if r.random() < 0.7 else {} for _ in frs]
                if dup is not None:
                    op["mds"][-1] = json.loads(json.dumps(op["mds"][dup]))
        if r.random() < 0.4:
            op["hmeta"] = self.md(True)
        return op

    def propose_reject(self, model):
        """An operation the API must refuse (the fault kind of this engine)."""
        r = self.rng
        k = self.kind
        nodes = sorted(model.nodes, key=tag)
        absent_nodes = [n for n in self.U if n not in model.nodes] + ["ghost"]
        kinds = ["remove_edge_absent", "remove_node_absent", "set_weight_absent", "set_attr_node_absent",
                 "set_attr_edge_absent", "rm_attr_node_nofield", "rm_attr_edge_nofield", "add_edge_badw",
                 "set_weight_badw", "add_edges_lenw", "add_edges_rep", "add_edges_shortmd", "add_nodes_lack"]
        if k in ("H", "D"):
            kinds += ["remove_edges_bad", "remove_edges_bad", "remove_nodes_bad", "remove_nodes_bad"]
        if k == "T":
            kinds += ["remove_nodes_bad", "bad_time", "bad_time", "add_edges_badtime", "add_edges_lent"]
        if k != "M":
            kinds += ["set_node_md_absent", "set_edge_md_absent"]
        if "filter" in self.cfg.get("extra_ops", []):
            kinds += ["filter_mode"]
        what = r.choice(kinds)
        af = self.absent_frag(model)
        pf = self.present_frag(model)
        if what == "remove_edge_absent" and af:
            return {"op": "remove_edge", "form": self.form(), **af}
        if what == "remove_node_absent":
            op = {"op": "remove_node", "n": r.choice(absent_nodes)}
            if k != "D" and r.random() < 0.5:
                op["keep"] = True
            return op
        if what == "set_weight_absent" and af:
            return {"op": "set_weight", **af, "w": self.weight() if model.weighted else 1}
        if what == "set_node_md_absent":
            return {"op": "set_node_md", "n": r.choice(absent_nodes), "md": self.md(True)}
        if what == "set_edge_md_absent" and af:
            return {"op": "set_edge_md", **af, "md": self.md(True)}
        if what == "set_attr_node_absent":
            return {"op": "set_attr_node", "n": r.choice(absent_nodes), "f": "k", "v": 1}
        if what == "set_attr_edge_absent" and af:
            return {"op": "set_attr_edge", **af, "f": "k", "v": 1}
        if what == "rm_attr_node_nofield" and nodes:
            n = r.choice(nodes)
            fs = [f for f in MD_KEYS + ["nope"] if f not in model.nodes[n]]
            return {"op": "rm_attr_node", "n": n, "f": r.choice(fs)}
        if what == "rm_attr_edge_nofield" and pf:
            md = model.edges[model.key(pf)][1]
            fs = [f for f in MD_KEYS + ["nope"] if f not in md]
            return {"op": "rm_attr_edge", **pf, "f": r.choice(fs)}
        if what == "add_edge_badw" and not model.weighted:
            f = pf if (pf and r.random() < 0.5) else self.rand_frag()
            op = {"op": "add_edge", **f, "w": r.choice([2, 3, 0.5])}
            key = model.key(op)
            if key in model.edges and model.edges[key][1]:
                op["md"] = json.loads(json.dumps(model.edges[key][1]))
            return op
        if what == "set_weight_badw" and not model.weighted and pf:
            return {"op": "set_weight", **pf, "w": r.choice([2, 3, 0.5])}
        if what in ("remove_edges_bad",) and af:
            ks = self.keys(model)
            good = [self.frag(model, q) for q in r.sample(ks, min(len(ks), r.randint(0, 4)))]
            pos = r.randint(0, len(good))
            if r.random() < 0.7 or not good:
                bad = af
            else:
                # the same hyperedge named twice, usually with its nodes listed in another order
                bad = self.frag(model, model.key(r.choice(good)))
            es = good[:pos] + [bad] + good[pos:]
            return {"op": "remove_edges", "es": [f["e"] for f in es], "_badpos": pos}
        if what == "remove_nodes_bad":
            good = r.sample(nodes, min(len(nodes), r.randint(0, 4)))
            pos = r.randint(0, len(good))
            bad = r.choice(absent_nodes) if (r.random() < 0.7 or not good) else r.choice(good)
            op = {"op": "remove_nodes", "ns": good[:pos] + [bad] + good[pos:], "_badpos": pos}
            if k != "D" and r.random() < 0.3:
                op["keep"] = True
            return op
        if what == "add_nodes_lack" and k != "D":
            cand = [n for n in self.U if n not in model.nodes]
            if cand:
                ns = r.sample(cand, r.randint(1, len(cand)))
                pos = r.randrange(len(ns))
                return {"op": "add_nodes", "ns": ns, "_badpos": pos,
                        "mds": [[n, self.md(True) or {}] for i, n in enumerate(ns) if i != pos]}
        if what in ("add_edges_lenw", "add_edges_rep", "add_edges_shortmd", "add_edges_badtime", "add_edges_lent"):
            frs = []
            seen = set()
            for _ in range(r.randint(2, 4)):
                f = self.absent_frag(model)
                if f and model.key(f) not in seen:
                    seen.add(model.key(f))
                    frs.append(f)
            if len(frs) >= 2:
                op = {"op": "add_edges", "es": [f["e"] for f in frs]}
                if k == "T":
                    op["ts"] = [f["t"] for f in frs]
                if k == "M":
                    op["layers"] = [f["layer"] for f in frs]
                if what == "add_edges_lenw" and model.weighted:
                    op["ws"] = [self.weight() for _ in frs][:-1] if r.random() < 0.6 else [self.weight() for _ in range(len(frs) + 1)]
                    return op
                if what == "add_edges_rep" and model.weighted:
                    pos = r.randrange(1, len(frs) + 1)
                    j = r.randrange(pos)
                    for fld in ("es", "ts", "layers"):
                        if fld in op:
                            op[fld] = op[fld][:pos] + [op[fld][j]] + op[fld][pos:]
                    op["ws"] = [self.weight() for _ in op["es"]]
                    return op
                if what == "add_edges_shortmd":
                    n = r.randrange(0, len(frs))
                    op["mds"] = [self.md(True) for _ in range(n)]
                    op["_badpos"] = n
                    if model.weighted and r.random() < 0.5:
                        op["ws"] = [self.weight() for _ in frs]
                    return op
                if what == "add_edges_badtime" and k == "T":
                    pos = r.randrange(len(frs))
                    op["ts"][pos] = r.choice([-1, -5, 1.5, "2"])
                    op["_badpos"] = pos
                    return op
                if what == "add_edges_lent" and k == "T":
                    op["ts"] = op["ts"][:-1]
                    return op
        if what == "bad_time" and k == "T":
            f = self.rand_frag()
            f["t"] = r.choice([-1, -7, 0.5, 2.0, "3", None])
            op = {"op": "add_edge", **f}
            if model.weighted:
                op["w"] = self.weight()
            return op
        if what == "filter_mode":
            return {"op": "filter", "mode": r.choice(["drop", "KEEP", ""]), "nc": {}, "ec": {}}
        return None


def gen_config(rng, kind, tier, extra_ops=(), extra_weight=1.0):
    lab = rng.choice(["small", "small", "big", "str", "numstr", "hashy", "mixnum"])
    usize = rng.randint(3, 7)
    large = rng.random() < (0.06 if tier == "quick" else 0.12)
    if large:
        # a minority of worlds is larger: 10-16 labels, hyperedges of up to 9 nodes, longer histories
        lab = rng.choice(["range16", "str16"])
        usize = rng.randint(10, 16)
    cfg = {
        "kind": kind,
        "weighted": rng.random() < 0.5,
        "labels": lab,
        "universe": rng.sample(LABELSETS[lab], usize),
        "wtype": rng.choice(["int", "int", "dyadic"]),
        "max_size": rng.randint(6, 9) if large else rng.randint(2, 5),
        "md_density": rng.choice([0.0, 0.3, 0.7]),
        "reject_rate": rng.choice([0.0, 0.1, 0.3]),
        "profile": rng.choice(sorted(PROFILES)),
        "length": rng.randint(30, 90) if large else rng.randint(5, 60 if tier == "quick" else 150),
        "layers": rng.sample(rng.choice(LAYERSETS), rng.randint(1, 3)),
        "extra_ops": list(extra_ops),
        "big_times": rng.random() < 0.2,  # temporal worlds: times far beyond the 0..6 range (two-digit, 2**31, 10**12)
        "large": large,
        "sparse_obs": rng.random() < 0.3,
    }
    w = {}
    for name in OPS[kind] + list(extra_ops):
        base = BASE_W.get(name, extra_weight)
        w[name] = base * PROFILES[cfg["profile"]].get(name, 1) * rng.choice([0.3, 1, 1, 3])
    cfg["opw"] = w
    return cfg


def generate_history(rng, cfg, extra_propose=None, max_actors=4):
    """Build the op list by running the reference model(s) only."""
    kind = cfg["kind"]
    g = Gen(rng, cfg)
    models = [Model(kind, cfg["weighted"])]
    ops = []
    names = sorted(cfg["opw"])
    weights = [cfg["opw"][n] for n in names]
    stats = {"ambiguous_skipped": 0}
    if rng.random() < cfg.get("ctor_rate", 0.3):
        op = g.propose_ctor(models[0])
        op["a"] = 0
        try:
            models[0].apply(op)
            ops.append(op)
        except Ambiguous:
            stats["ambiguous_skipped"] += 1
    for _step in range(cfg["length"]):
        for _attempt in range(30):
            a = rng.randrange(len(models))
            m = models[a]
            try:
                if rng.random() < cfg["reject_rate"]:
                    op = g.propose_reject(m)
                else:
                    name = rng.choices(names, weights)[0]
                    if name == "copy" and len(models) >= max_actors:
                        continue
                    if extra_propose and name in cfg["extra_ops"] and name != "filter":
                        op = extra_propose(g, m, name)
                    else:
                        op = g.propose_valid(m, name)
            except Ambiguous:
                # the proposal itself touched a shape outside the quantifier (e.g. the empty hyperedge left by a shrink)
                stats["ambiguous_skipped"] += 1
                continue
            if op is None:
                continue
            op["a"] = a
            if op["op"] == "add_edges" and kind in ("H", "D") and "ws" not in op and "mds" not in op and rng.random() < 0.2:
                op["seq"] = rng.choice(["iter", "tuple"])  # a bare edge list may be any iterable too (e.g. zip(...))
            if op["op"] in ("add_nodes", "remove_nodes", "remove_edges") and rng.random() < 0.25:
                op["seq"] = rng.choice(["iter", "iter", "tuple"])  # any iterable will do for these batches
            try:
                if op["op"] == "copy":
                    models.append(m.fork())
                elif op["op"].startswith("d_"):
                    pass  # derivation: no effect on the model
                else:
                    m.apply(op)
            except Ambiguous:
                stats["ambiguous_skipped"] += 1
                continue
            ops.append(op)
            break
    if cfg.get("sparse_obs"):
        # sparse observation: after most steps only a random part of the queries is made, so a value the library
        # remembered from an earlier query (and did not refresh) is still there when the query finally comes
        mr = random.Random(rng.getrandbits(48))
        rate = mr.choice([0.3, 0.7, 0.9])
        for op in ops:
            if mr.random() < 0.8:
                op["_mute"] = [n for n in O.MUTABLE if mr.random() < rate]
    return ops, stats


# ------------------------------------------------------------------- execution
class World:
    def __init__(self, case):
        self.case = case
        self.kind = case["kind"]
        self.U = case["universe"]
        self.actors = [[O.new_object(self.kind, case["weighted"]), Model(self.kind, case["weighted"])]]
        self.probe_keys = []
        self._probe_seen = set()
        ms = (case.get("cfg") or {}).get("max_size", 5)
        self.sizes = tuple(range(0, ms + 2)) if ms > 5 else None  # the filter grid follows the largest hyperedge size
        self.log = []
        self.stats = {"ops": 0, "outcomes": {}, "probes": {}, "faults": {}}
        self.touched_after_fork = {}

    def note_keys(self, model, op):
        frs = []
        if "e" in op:
            frs.append(op)
        if "es" in op:
            for i, e in enumerate(op["es"]):
                f = {"e": e}
                if "ts" in op and i < len(op["ts"]):
                    f["t"] = op["ts"][i]
                elif self.kind == "T":
                    continue
                if "layers" in op and i < len(op["layers"]):
                    f["layer"] = op["layers"][i]
                elif self.kind == "M":
                    continue
                frs.append(f)
        for f in frs:
            try:
                key = model.key(f)
                if self.kind == "T" and (type(key[0]) is not int):
                    continue
            except (Ambiguous, Exception):
                continue
            if key not in self._probe_seen and len(self.probe_keys) < 24:
                self._probe_seen.add(key)
                self.probe_keys.append(key)

    def probe(self, name, n=1):
        self.stats["probes"][name] = self.stats["probes"].get(name, 0) + n

    def compare_all(self, pid, op, outcome, exc, a):
        for j, (obj, model) in enumerate(self.actors):
            O.MUTED = set(op.get("_mute") or ())
            try:
                obs = O.observe(self.kind, obj, self.U, self.probe_keys, flip=(len(self.log) + j) % 6, sizes=self.sizes)
            finally:
                O.MUTED = set()
            mobs = model.observe(self.U, self.probe_keys, sizes=self.sizes)
            if op.get("_mute"):
                # sparse observation: whatever a query that was not made would have contributed is left out on both sides
                gone = [k for k, v in obs.items() if O.MUTED_TEXT in json.dumps(v, default=str)]
                for k in gone:
                    obs.pop(k)
                    mobs.pop(k, None)
                self.stats["probes"]["observables_not_queried"] = self.stats["probes"].get("observables_not_queried", 0) + len(gone)
            if model.hmeta_unknown:  # after clear(): adopt what is observed (DESIGN 4.5)
                try:
                    hm = obj.get_hypergraph_metadata()
                    model.hmeta = json.loads(json.dumps(hm))
                    model.hmeta_unknown = False
                except Exception:
                    pass
            d = O.compare(self.kind, obs, mobs)
            if d:
                cls, path, got, want = d
                where = "self" if j == a else "leak"
                variant = op_variant(op)
                sig = f"{pid}/refine/{op['op']}{variant}/{outcome}/{where}/{cls}"
                raise Violation(sig, {
                    "step": len(self.log), "op": op, "model_outcome": outcome,
                    "library_exception": repr(exc) if exc is not None else None,
                    "actor": j, "observable": path, "library": short(got, 300), "model": short(want, 300)})
        return None


def op_variant(op):
    v = []
    if op.get("keep") is True:
        v.append("keep")
    if "_badpos" in op:
        v.append("bad@0" if op["_badpos"] == 0 else "bad@k>0")
    return "[" + ",".join(v) + "]" if v else ""


def run_world(pid, case, mode="refine", handlers=None, on_step=None):
    """Execute a case.  mode='refine': compare every actor with its model after every
    step.  mode='drive': histories only drive the objects; verdicts come from handlers."""
    sut()
    w = World(case)
    kind = w.kind
    handlers = handlers or {}
    states = set()
    trans = set()
    state_changing = 0
    rejects = 0
    for op in case["ops"]:
        a = op.get("a", 0)
        if a >= len(w.actors):
            continue  # the fork that created this actor was removed by the shrinker
        obj, model = w.actors[a]
        name = op["op"]
        w.stats["ops"] += 1
        if name in handlers:
            exc = None
            outcome = "deriv"
            info = handlers[name](w, a, op)
            if mode == "refine":
                w.compare_all(pid, op, outcome, exc, a)
            w.log.append([name, a, "deriv", info])
            oc = w.stats["outcomes"]
            oc[name + ":deriv"] = oc.get(name + ":deriv", 0) + 1
            if on_step:
                on_step(w, a, op, outcome, exc)
            continue
        if name == "ctor":
            outcome = model.apply(op)  # Ambiguous unless this is the pristine first object
            exc = None
            try:
                obj = O.construct(kind, case["weighted"], op)
                w.actors[a][0] = obj
            except Exception as e:  # noqa
                raise Violation(f"{pid}/constructor-raised", {"op": op, "exception": repr(e)})
            w.note_keys(model, op)
            w.probe("constructed_with_arguments")
            states.add(digest(model.content()))
            state_changing += 1
        elif name == "copy":
            exc = None
            try:
                new = obj.copy()
            except Exception as e:  # noqa
                exc, new = e, None
            if new is None:
                raise Violation(f"{pid}/copy-raised", {"op": op, "exception": repr(exc)})
            w.actors.append([new, model.fork()])
            outcome = "ok"
            w.probe("forks")
        else:
            w.note_keys(model, op)
            pre = digest(model.content())
            outcome = model.apply(op)  # Ambiguous propagates: candidate discarded
            exc = O.apply_op(kind, obj, op)
            post = digest(model.content())
            if outcome == "ok" and pre != post:
                state_changing += 1
            if outcome == "reject":
                rejects += 1
                w.stats["faults"]["rejected_op"] = w.stats["faults"].get("rejected_op", 0) + 1
                kname = "rejected:" + name + op_variant(op)
                w.stats["faults"][kname] = w.stats["faults"].get(kname, 0) + 1
                if op.get("_badpos", 0) > 0:
                    w.probe("batch_rejected_at_k>0")
                if exc is None:
                    w.probe("rejected_op_not_raised")
            if name == "add_edge" and outcome == "ok" and pre == post and not model.weighted:
                w.probe("reinsert_unweighted")
            if name == "add_edge" and outcome == "ok" and model.weighted and pre != post:
                pass
            if len(w.actors) > 1 and outcome == "ok" and pre != post:
                w.touched_after_fork[a] = True
                if len(w.touched_after_fork) >= 2:
                    w.probe("two_actors_mutated_after_fork")
            states.add(post)
            trans.add((pre, name, outcome))
        oc = w.stats["outcomes"]
        oc[name + ":" + outcome] = oc.get(name + ":" + outcome, 0) + 1
        if mode == "refine":
            if outcome == "reject" and exc is None:
                # the library ACCEPTED a call the reference model refuses.  The statements only say that a call rejected
                # with an exception leaves the state unchanged; what an accepted call of that kind does is not specified.
                # If the state is unchanged the history goes on, otherwise it ends here without a verdict.
                try:
                    w.compare_all(pid, op, outcome, exc, a)
                except Violation:
                    w.probe("accepted_what_the_model_refuses")
                    break
            else:
                w.compare_all(pid, op, outcome, exc, a)
            w.log.append([name, a, outcome, digest(model.content())])
        else:
            if outcome == "reject" and exc is None:
                w.probe("accepted_what_the_model_refuses")
                break  # drive mode: no way to tell what the accepted call did - the history ends here without a verdict
            w.log.append([name, a, outcome, type(exc).__name__ if exc is not None else None])
        if on_step:
            on_step(w, a, op, outcome, exc)
    res = {
        "digest": digest([case.get("kind"), w.log]),
        "stats": w.stats,
        "nontrivial": state_changing >= 3 and (rejects >= 1 or len(w.actors) > 1),
        "violation": None,
    }
    w.stats["_sets"] = {"states": states, "transitions": {digest(list(t)) for t in trans}}
    w.stats["state_changing_ops"] = state_changing
    return res, w


def sample_of(case, n=12):
    return {"kind": case["kind"], "weighted": case["weighted"], "universe": case["universe"],
            "ops": case["ops"][:n], "ops_total": len(case["ops"])}


def simplify_ops(case):
    """Per-operation simplifications tried after ddmin (DESIGN 3.3 step 2)."""
    ops = case["ops"]
    for i, op in enumerate(ops):
        if op.get("_mute"):
            c = json.loads(json.dumps(case))
            del c["ops"][i]["_mute"]  # observe everything at this step
            yield c
        for fld in ("md", "form", "pos"):
            if fld == "md" and op["op"] not in ("add_node", "add_edge"):
                continue
            if fld in op and op[fld]:
                c = json.loads(json.dumps(case))
                del c["ops"][i][fld]
                yield c
        if op.get("keep") is True and op["op"] != "filter":
            pass
        for fld in ("es", "ns"):
            if fld in op and len(op[fld]) > 1 and "_badpos" not in op:
                for j in range(len(op[fld])):
                    c = json.loads(json.dumps(case))
                    o2 = c["ops"][i]
                    for f2 in (fld, "ws", "mds", "ts", "layers"):
                        if f2 in o2 and isinstance(o2[f2], list) and len(o2[f2]) == len(op[fld]) and fld == "es":
                            o2[f2] = o2[f2][:j] + o2[f2][j + 1:]
                        elif f2 == fld:
                            o2[f2] = o2[f2][:j] + o2[f2][j + 1:]
                    yield c


# ------------------------------------------------------- derived-object comparison
MD_KEYS_OBS = ("nodes_md", "node_md", "all_nodes_md", "edges_md", "edge_md", "all_edges_md", "hmeta")
NODE_KEYS_OBS = ("nodes", "num_nodes", "inc", "deg", "nbr", "degseq", "degdist", "check_node", "isolated", "is_isolated",
                 "in_degseq", "out_degseq")


def compare_derived(pid, what, kind, obj, expected, universe, ignore_md=True, ignore_nodes=False, ctx=None,
                    ignore_keys=()):
    """Full public observation of a derived object against an expected Model."""
    obs = O.observe(kind, obj, universe, [])
    mobs = expected.observe(universe, [])

    def keep(k):
        base = k.split("/")[0]
        if ignore_md and base in MD_KEYS_OBS:
            return False
        if ignore_nodes and base in NODE_KEYS_OBS:
            return False
        if base in ignore_keys:
            return False
        return True

    obs = {k: v for k, v in obs.items() if keep(k)}
    mobs = {k: v for k, v in mobs.items() if keep(k)}
    d = O.compare(kind, obs, mobs)
    if d:
        cls, path, got, want = d
        raise Violation(f"{pid}/derive/{what}/{cls}", {
            "derivation": what, "context": ctx, "observable": path,
            "library": short(got, 300), "expected": short(want, 300)})
