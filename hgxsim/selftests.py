"""Self-tests of the machinery (DESIGN.md 3.4, 3.5, 12.2).

./check selftest-mutants [quick|thorough] [id ...]   every seeded change under /verif/seeded/ must make its property's check exit 1
./check selftest-benign                               behaviour-preserving refactors under /verif/mutants/benign-*.patch must keep exit 0
./check selftest-determinism [n]                      n seeds per property: twice in-process + fresh interpreters with two hash seeds
"""
import glob
import json
import os
import shutil
import subprocess
import sys
import tempfile
import time

from . import core

CLAIMED = ["C01", "C02", "C03", "C04", "C05", "C06", "C07", "C13", "C14", "C15", "C16", "C17", "C18", "C19"]


def _scratch_with_patch(patch):
    d = tempfile.mkdtemp(prefix="hgxsim-mut-")
    shutil.copytree(os.path.join(core.REPO, "hypergraphx"), os.path.join(d, "hypergraphx"),
                    ignore=shutil.ignore_patterns("__pycache__"))
    p = subprocess.run(["patch", "-p1", "-s", "-i", patch], cwd=d, capture_output=True, text=True)
    if p.returncode != 0:
        shutil.rmtree(d, ignore_errors=True)
        raise core.HarnessError(f"patch {patch} does not apply: {p.stdout} {p.stderr}")
    return d


def _run_check(pid, tier, repo, seed=None):
    env = dict(os.environ)
    env["VERIF_REPO"] = repo
    env["VERIF_EVIDENCE_DIR"] = tempfile.mkdtemp(prefix="hgxsim-ev-")
    if seed is not None:
        env["VERIF_SEED"] = str(seed)
    t0 = time.time()
    p = subprocess.run([os.path.join(core.ROOT, "check"), pid, tier], env=env, capture_output=True, text=True, timeout=3600)
    shutil.rmtree(env["VERIF_EVIDENCE_DIR"], ignore_errors=True)
    sigs = [l.split("sig=")[1].split(" ")[0] for l in p.stdout.splitlines() if "violation sig=" in l]
    return p.returncode, sigs, time.time() - t0, p.stdout[-1500:]


def mutants(argv):
    tier = "quick"
    ids = []
    for a in argv[1:]:
        if a in ("quick", "thorough"):
            tier = a
        else:
            ids.append(a)
    rows = []
    bad = 0
    for meta_path in sorted(glob.glob(os.path.join(core.ROOT, "seeded", "*", "meta.json"))):
        d = os.path.dirname(meta_path)
        name = os.path.basename(d)
        if ids and name not in ids:
            continue
        meta = json.load(open(meta_path))
        pid = meta["property"]
        checks = meta.get("checks", [pid])
        try:
            scratch = _scratch_with_patch(os.path.join(d, "patch.diff"))
        except core.HarnessError as e:
            bad += 1
            print(f"[selftest] {name:28s} property={pid} STALE: {str(e)[:200]}", flush=True)
            continue
        try:
            caught_by = []
            for c in checks:
                rc, sigs, wall, tail = _run_check(c, tier, scratch)
                if rc == 1:
                    caught_by.append((c, sorted(set(sigs))[:3], round(wall, 1)))
                elif rc != 0:
                    print(f"[selftest] {name}: check {c} exited {rc} (harness error)\n{tail}")
        finally:
            shutil.rmtree(scratch, ignore_errors=True)
        expected = meta.get("expected", "caught")  # caught | missed (documented) | neutralised (a later fix made it harmless)
        ok = bool(caught_by) == (expected == "caught")
        bad += 0 if ok else 1
        rows.append((name, pid, expected, caught_by))
        print(f"[selftest] {name:28s} property={pid} expected={expected:11s} caught_by={caught_by}", flush=True)
    print(f"[selftest] {len(rows)} seeded changes, {bad} not as expected")
    return 0 if bad == 0 else 1


def benign(argv):
    bad = 0
    # refactorings written by sub-agents that keep the property (meta.json verdict "benign"): every listed check must stay quiet
    for meta_path in sorted(glob.glob(os.path.join(core.ROOT, "benign", "*", "meta.json"))):
        d = os.path.dirname(meta_path)
        meta = json.load(open(meta_path))
        if meta.get("verdict") != "benign" or (len(argv) > 1 and os.path.basename(d) not in argv[1:]):
            continue
        try:
            scratch = _scratch_with_patch(os.path.join(d, "patch.diff"))
        except core.HarnessError as e:
            print(f"[selftest-benign] {os.path.basename(d):28s} STALE: {str(e)[:160]}", flush=True)
            bad += 1
            continue
        try:
            for pid in meta.get("checks", [meta["property"]]):
                rc, sigs, wall, tail = _run_check(pid, "quick", scratch)
                status = "ok" if rc == 0 else f"EXIT {rc} {sigs[:2]}"
                bad += 0 if rc == 0 else 1
                print(f"[selftest-benign] {os.path.basename(d):28s} {pid} {status} ({wall:.0f}s)", flush=True)
        finally:
            shutil.rmtree(scratch, ignore_errors=True)
    if len(argv) > 1:
        return 0 if bad == 0 else 1
    for patch in sorted(glob.glob(os.path.join(core.ROOT, "mutants", "benign-*.patch"))):
        scratch = _scratch_with_patch(patch)
        try:
            head = open(patch).readline()
            pids = [p for p in CLAIMED if p in head] or CLAIMED
            for pid in pids:
                rc, sigs, wall, tail = _run_check(pid, "quick", scratch)
                status = "ok" if rc == 0 else f"EXIT {rc} {sigs[:2]}"
                if rc != 0:
                    bad += 1
                print(f"[selftest-benign] {os.path.basename(patch):40s} {pid} {status} ({wall:.0f}s)", flush=True)
        finally:
            shutil.rmtree(scratch, ignore_errors=True)
    return 0 if bad == 0 else 1


def determinism(argv):
    n = int(argv[1]) if len(argv) > 1 else 60
    bad = 0
    for pid in CLAIMED:
        ok, info = core.determinism_selftest(pid, "quick", n=n)
        outs = []
        for hs, workers in (("0", "1"), ("777", "16")):
            env = dict(os.environ)
            env["PYTHONHASHSEED"] = hs
            env["VERIF_WORKERS"] = workers
            p = subprocess.run([os.path.join(core.ROOT, "check"), "--digests", pid, str(n)], env=env, capture_output=True, text=True, timeout=3600)
            outs.append([l for l in p.stdout.splitlines() if l.startswith("DIGEST ")])
        ok2 = outs[0] == outs[1] and len(outs[0]) == n
        print(f"[selftest-determinism] {pid}: in-process x2 + hashseed 12345: {ok}; fresh interpreters hashseed 0 vs 777: {ok2}", flush=True)
        bad += 0 if (ok and ok2) else 1
    return 0 if bad == 0 else 1


def main(argv):
    core.sut()
    if argv[0] == "selftest-mutants":
        return mutants(argv)
    if argv[0] == "selftest-benign":
        return benign(argv)
    if argv[0] == "selftest-determinism":
        return determinism(argv)
    print("unknown self-test", argv[0])
    return 2
