"""Common machinery: seeds, canonical values, digests, runner, minimisation, replay,
evidence, known findings.  See DESIGN.md section 3."""
import concurrent.futures as cf
import faulthandler
import fnmatch
import hashlib
import importlib
import json
import multiprocessing
import os
import random
import subprocess
import sys
import time
import traceback

ROOT = os.path.dirname(os.path.dirname(os.path.abspath(__file__)))
REPO = os.path.abspath(os.environ.get("VERIF_REPO", "/repo"))
EVIDENCE_DIR = os.environ.get("VERIF_EVIDENCE_DIR") or os.path.join(ROOT, "evidence")
REPLAY_DIR = os.path.join(ROOT, "replays")
FINDINGS_FILE = os.path.join(ROOT, "KNOWN_FINDINGS.txt")
NWORKERS = int(os.environ.get("VERIF_WORKERS", "16"))

EXIT_OK, EXIT_VIOLATION, EXIT_HARNESS = 0, 1, 2


class HarnessError(Exception):
    """Raised for failures of the machinery itself; never reported as a violation."""


class Ambiguous(Exception):
    """The reference semantics deliberately do not fix the outcome of this step."""


# --------------------------------------------------------------------------- SUT
_SUT_READY = False


def sut():
    """Import hypergraphx from the tree under test and make sure it is that tree."""
    global _SUT_READY
    if not _SUT_READY:
        if sys.path[0] != REPO:
            sys.path.insert(0, REPO)
        import hypergraphx

        f = os.path.abspath(hypergraphx.__file__)
        if not f.startswith(REPO + os.sep):
            raise HarnessError(f"hypergraphx resolves to {f}, expected under {REPO}")
        import logging

        logging.disable(logging.CRITICAL)  # the library logs warnings through the root logger
        _SUT_READY = True
    import hypergraphx

    return hypergraphx


# ------------------------------------------------------------------------- seeds
def batch_seed():
    try:
        return int(os.environ.get("VERIF_SEED", "0"))
    except ValueError:
        return 0


def derive(*parts):
    h = hashlib.blake2b("/".join(str(p) for p in parts).encode(), digest_size=8)
    return int.from_bytes(h.digest(), "big")


def run_seed(prop, i):
    return derive(batch_seed(), prop, i)


# ------------------------------------------------------------- canonical values
def tag(v):
    """Type-aware, hash-seed independent, totally ordered stand-in for a scalar."""
    return f"{type(v).__name__}:{v!r}"


def cmeta(md):
    """Canonical text of a metadata value (dict or anything else)."""
    try:
        return json.dumps(md, sort_keys=True, allow_nan=True)
    except (TypeError, ValueError):
        return "!" + repr(md)


def digest(obj):
    s = json.dumps(obj, sort_keys=True, default=repr, separators=(",", ":"))
    return hashlib.blake2b(s.encode(), digest_size=12).hexdigest()


def first_diff(a, b, path=""):
    """Path and the two values of the first difference between two canonical structures."""
    if type(a) is not type(b):
        return path, a, b
    if isinstance(a, dict):
        for k in sorted(set(a) | set(b), key=str):
            if k not in a:
                return f"{path}/{k}", "<absent>", b[k]
            if k not in b:
                return f"{path}/{k}", a[k], "<absent>"
            d = first_diff(a[k], b[k], f"{path}/{k}")
            if d:
                return d
        return None
    if a != b:
        return path, a, b
    return None


# -------------------------------------------------------------------- violations
class Violation(Exception):
    def __init__(self, sig, detail):
        super().__init__(sig)
        self.sig = sig
        self.detail = detail


def short(x, n=400):
    s = x if isinstance(x, str) else repr(x)
    return s if len(s) <= n else s[:n] + "..."


# ----------------------------------------------------------------- known findings
def load_findings():
    known, fixed = [], []
    if os.path.exists(FINDINGS_FILE):
        for line in open(FINDINGS_FILE):
            line = line.strip()
            if line.startswith("known:"):
                head, _, text = line[6:].partition("::")
                kv = dict(p.split("=", 1) for p in head.split() if "=" in p)
                known.append(
                    {
                        "property": kv.get("property"),
                        "sig": kv.get("sig", ""),
                        "replay": kv.get("replay"),
                        "text": text.strip(),
                    }
                )
            elif line.startswith("fixed:"):
                fixed.append(line)
    return known, fixed


def match_known(prop, sig, known):
    for k in known:
        # literal equality first: signatures contain "[...]" (exception types), which fnmatch reads as a character class
        if k["property"] == prop and (sig == k["sig"] or fnmatch.fnmatchcase(sig, k["sig"])):
            return k
    return None


# ------------------------------------------------------------------ property API
def load_prop(pid):
    mod = importlib.import_module(f"hgxsim.props.{pid}")
    return mod


def execute_rate(mod, case):
    """Batch-level case: the fraction of seeds whose run ends in a given (known-finding) signature must stay
    below a bound.  Deterministic: the seeds are derived from the recorded batch seed."""
    rc = case["rate"]
    pid = rc["property"]
    hits = 0
    examples = []
    for i in range(rc["offset"], rc["offset"] + rc["n"]):
        seed = derive(rc["verif_seed"], pid, i)
        r = execute_case(mod, mod.generate(seed, rc.get("tier", "quick")))
        if r["violation"] and rc["sig"] in (r["violation"]["sig"], r["violation"]["sig"] + "@" + str(r["violation"].get("rate_tag"))):
            hits += 1
            if len(examples) < 3:
                examples.append({"run": i, "detail": r["violation"]["detail"]})
    frac = hits / rc["n"]
    if frac > rc["bound"]:
        return {"violation": {"sig": rc["sig"] + "/rate-above-known-finding",
                              "detail": {"hits": hits, "runs": rc["n"], "fraction": frac, "bound": rc["bound"], "examples": examples}},
                "digest": "violation:rate", "stats": {}}
    return {"violation": None, "digest": digest(["rate", hits]), "stats": {}}


def execute_case(mod, case):
    """Run one case; returns dict(violation=None|{sig,detail}, digest, stats, ...)."""
    if isinstance(case, dict) and "rate" in case:
        return execute_rate(mod, case)
    try:
        res = mod.execute(case)
    except Violation as v:  # props may raise instead of returning
        res = {"violation": {"sig": v.sig, "detail": v.detail}}
    res.setdefault("violation", None)
    res.setdefault("stats", {})
    res.setdefault("digest", "")
    return res


# ------------------------------------------------------------------ minimisation
def run_isolated(fn, *args):
    """Run fn(*args) in a forked child and return its (picklable) result; the caller's process never runs it."""
    import pickle

    r, w = os.pipe()
    child = os.fork()
    if child == 0:
        code = 0
        try:
            os.close(r)
            try:
                res = ("ok", fn(*args))
            except BaseException as e:  # noqa
                res = ("err", repr(e))
            with os.fdopen(w, "wb") as f:
                pickle.dump(res, f)
        except BaseException:
            code = 1
        finally:
            os._exit(code)
    os.close(w)
    with os.fdopen(r, "rb") as f:
        data = f.read()
    os.waitpid(child, 0)
    if not data:
        return ("err", "child died")
    return pickle.loads(data)


def _violation_of(pid, case):
    mod = load_prop(pid)
    r = execute_case(mod, case)
    return r["violation"]


def _same_isolated(pid, case, sig):
    st, v = run_isolated(_violation_of, pid, case)
    return st == "ok" and bool(v) and v["sig"] == sig


def _minimise_in_child(pid, case, sig, max_tests):
    mod = load_prop(pid)
    small = minimise(mod, case, sig, max_tests=max_tests)
    r = execute_case(mod, small)
    if r["violation"] and r["violation"]["sig"] == sig:
        return small, r["violation"]
    r = execute_case(mod, case)
    if r["violation"] and r["violation"]["sig"] == sig:
        return case, r["violation"]
    return None, None


def minimise_isolated(pid, case, sig, max_tests=200):
    """ddmin with every test in its own forked process (for code under test that carries state between runs)."""
    budget = [max_tests]
    case = json.loads(json.dumps(case))
    if "ops" in case:
        def test(ops):
            c = dict(case)
            c["ops"] = ops
            return _same_isolated(pid, c, sig)

        case["ops"] = ddmin_list(case["ops"], test, budget)
    return case


def _same(mod, case, sig):
    try:
        r = execute_case(mod, case)
    except Ambiguous:
        return False
    except HarnessError:
        return False
    except Exception:
        return False  # a shrink candidate that is not a well-formed case
    v = r["violation"]
    return bool(v) and v["sig"] == sig


def ddmin_list(items, test, budget):
    """Classic ddmin on a list; test(list)->bool says 'still fails'."""
    n = 2
    items = list(items)
    while len(items) >= 2 and budget[0] > 0:
        chunk = max(1, len(items) // n)
        subsets = [items[i : i + chunk] for i in range(0, len(items), chunk)]
        reduced = False
        for i in range(len(subsets)):
            comp = [x for j, s in enumerate(subsets) if j != i for x in s]
            budget[0] -= 1
            if comp and test(comp):
                items = comp
                n = max(n - 1, 2)
                reduced = True
                break
            if budget[0] <= 0:
                break
        if not reduced:
            if n >= len(items):
                break
            n = min(len(items), n * 2)
    if len(items) == 1 and budget[0] > 0:
        budget[0] -= 1
        if test([]):
            return []
    return items


def minimise(mod, case, sig, max_tests=1500):
    if isinstance(case, dict) and "rate" in case:
        return case  # batch-level case: nothing to shrink
    budget = [max_tests]
    case = json.loads(json.dumps(case))
    if "ops" in case:
        def test(ops):
            c = dict(case)
            c["ops"] = ops
            return _same(mod, c, sig)

        case["ops"] = ddmin_list(case["ops"], test, budget)
    if hasattr(mod, "simplify"):
        changed = True
        while changed and budget[0] > 0:
            changed = False
            for cand in mod.simplify(case):
                budget[0] -= 1
                if _same(mod, cand, sig):
                    case = cand
                    changed = True
                    break
                if budget[0] <= 0:
                    break
    return case


# ------------------------------------------------------------------------ replay
def write_replay(pid, seed, case, violation):
    os.makedirs(REPLAY_DIR, exist_ok=True)
    path = os.path.join(REPLAY_DIR, f"{pid}-{seed}-{digest(violation['sig'])[:8]}.json")
    with open(path, "w") as f:
        json.dump(
            {"property": pid, "seed": seed, "case": case, "violation": violation},
            f,
            indent=1,
            sort_keys=True,
            default=repr,
        )
    return path


def replay_file(path, quiet=False):
    rec = json.load(open(path))
    mod = load_prop(rec["property"])
    r = execute_case(mod, rec["case"])
    v = r["violation"]
    want = rec.get("violation", {}).get("sig")
    if not quiet:
        print(f"replay {path}: expected sig={want}")
        print(f"  got: {v['sig'] if v else None}")
        if v:
            print("  detail:", short(json.dumps(v["detail"], default=repr), 2000))
    if v and v["sig"] == want:
        return EXIT_VIOLATION
    if v:
        return 3  # a violation, but a different one
    return EXIT_OK


def replay_in_fresh_interpreter(path, hashseed="0"):
    env = dict(os.environ)
    env["PYTHONHASHSEED"] = hashseed
    p = subprocess.run(
        [os.path.join(ROOT, "check"), "--replay", path],
        env=env,
        capture_output=True,
        text=True,
        timeout=600,
    )
    return p.returncode, p.stdout + p.stderr


# ------------------------------------------------------------------------ runner
def _worker(args):
    pid, tier, lo, hi, deadline = args
    faulthandler.enable()
    mod = load_prop(pid)
    out = {"digests": [], "stats": {}, "violations": [], "nontrivial": [], "samples": [],
           "errors": [], "runs": 0, "ops": 0}
    for i in range(lo, hi):
        if time.time() > deadline:
            break
        seed = run_seed(pid, i)
        try:
            faulthandler.dump_traceback_later(300, exit=True)
            case = mod.generate(seed, tier)
            res = execute_case(mod, case)
            faulthandler.cancel_dump_traceback_later()
        except Ambiguous as e:
            out["errors"].append((i, seed, "Ambiguous escaped: " + str(e)))
            continue
        except Exception:
            faulthandler.cancel_dump_traceback_later()
            out["errors"].append((i, seed, traceback.format_exc()))
            continue
        out["runs"] += 1
        out["digests"].append(res["digest"])
        merge_stats(out["stats"], res["stats"])
        if res.get("nontrivial"):
            out["nontrivial"].append(res["digest"])
        if len(out["samples"]) < 1 and res.get("sample") is not None:
            out["samples"].append(res["sample"])
        if res["violation"]:
            vc = out["stats"].setdefault("_viol_counts", {})
            vc[res["violation"]["sig"]] = vc.get(res["violation"]["sig"], 0) + 1
            if res["violation"].get("rate_tag"):
                # sub-population of the runs in which the (known) signature occurred: has its own, tighter, rate bound
                tk = res["violation"]["sig"] + "@" + res["violation"]["rate_tag"]
                vc[tk] = vc.get(tk, 0) + 1
            if len(out["violations"]) < 40:
                out["violations"].append((i, seed, case, res["violation"]))
    return out


def merge_stats(dst, src):
    for k, v in src.items():
        if k == "_maps":
            # tables that must stay functions across the whole batch (e.g. content -> hash)
            maps = dst.setdefault("_maps", {})
            for name, table in v.items():
                t = maps.setdefault(name, {})
                for key, val in table.items():
                    if key in t:
                        dst["table_shared_hits"] = dst.get("table_shared_hits", 0) + 1
                        if t[key][0] != val[0]:
                            dst.setdefault("_conflicts", []).append((name, key, t[key], val))
                    else:
                        t[key] = val
        elif k == "_conflicts":
            dst.setdefault("_conflicts", []).extend(v)
        elif isinstance(v, dict):
            merge_stats(dst.setdefault(k, {}), v)
        elif isinstance(v, (set, frozenset)):
            dst.setdefault(k, set()).update(v)
        else:
            dst[k] = dst.get(k, 0) + v


def run_batch(pid, tier, nruns, wall_cap, offset=0):
    """Fan nruns seeded runs out over the worker pool.  Returns merged result dict."""
    t0 = time.time()
    deadline = t0 + wall_cap
    nblocks = min(nruns, NWORKERS * 4)
    bounds = [offset + (nruns * b) // nblocks for b in range(nblocks + 1)]
    jobs = [(pid, tier, bounds[b], bounds[b + 1], deadline) for b in range(nblocks)]
    merged = {"digests": [], "stats": {}, "violations": [], "nontrivial": [], "samples": [],
              "errors": [], "runs": 0}
    ctx = multiprocessing.get_context("fork")
    with cf.ProcessPoolExecutor(max_workers=NWORKERS, mp_context=ctx) as ex:
        futs = [ex.submit(_worker, j) for j in jobs]
        for f in futs:
            try:
                r = f.result(timeout=wall_cap + 600)
            except Exception as e:  # dead worker, timeout
                raise HarnessError(f"worker failed: {e!r}")
            merged["digests"] += r["digests"]
            merged["violations"] += r["violations"]
            merged["nontrivial"] += r["nontrivial"]
            merged["samples"] += r["samples"]
            merged["errors"] += r["errors"]
            merged["runs"] += r["runs"]
            merge_stats(merged["stats"], r["stats"])
    merged["wall_s"] = time.time() - t0
    return merged


# ---------------------------------------------------------------------- evidence
def write_evidence(pid, tier, level, coverage, wall_s, violations, assumptions):
    os.makedirs(EVIDENCE_DIR, exist_ok=True)
    ev = {
        "property_id": pid,
        "tier": tier,
        "seed": batch_seed(),
        "level": level,
        "coverage": coverage,
        "assumptions": assumptions,
        "wall_s": round(wall_s, 3),
        "violations": violations,
    }
    try:
        import jsonschema  # optional

        schema = json.load(open("/root/.vp/EVIDENCE.schema.json"))
        jsonschema.validate(ev, schema)
    except ImportError:
        pass
    except FileNotFoundError:
        pass
    path = os.path.join(EVIDENCE_DIR, f"{pid}.json")
    tmp = path + ".tmp"
    with open(tmp, "w") as f:
        json.dump(ev, f, indent=1, sort_keys=True, default=repr)
    os.replace(tmp, path)
    return path


# -------------------------------------------------------------- the check driver
def _det_twice(pid, n):
    mod = load_prop(pid)
    a, b = [], []
    for i in range(n):
        seed = run_seed(pid, 10_000_000 + i)
        a.append(execute_case(mod, mod.generate(seed, "quick"))["digest"])
        b.append(execute_case(mod, mod.generate(seed, "quick"))["digest"])
    return a, b


def determinism_selftest(pid, tier, n=24):
    """Same seeds: in-process twice, and in a fresh interpreter with another hash seed."""
    # in a forked child: the parent (from which the batch workers are forked) never executes the code under test
    ctx = multiprocessing.get_context("fork")
    with cf.ProcessPoolExecutor(max_workers=1, mp_context=ctx) as ex:
        a, b = ex.submit(_det_twice, pid, n).result(timeout=1800)
    env = dict(os.environ)
    env["PYTHONHASHSEED"] = "12345"
    p = subprocess.run(
        [os.path.join(ROOT, "check"), "--digests", pid, str(n)],
        env=env, capture_output=True, text=True, timeout=900,
    )
    c = [l[7:] for l in p.stdout.splitlines() if l.startswith("DIGEST ")]
    ok = a == b and a == c
    info = {"seeds": n, "in_process_equal": a == b, "fresh_interpreter_hashseed_12345_equal": a == c}
    if not ok:
        info["first_mismatch"] = next(
            (i for i in range(n) if not (a[i] == b[i] and (i < len(c) and a[i] == c[i]))), None)
        info["stderr"] = short(p.stderr, 500)
    return ok, info


def print_digests(pid, n):
    mod = load_prop(pid)
    for i in range(n):
        seed = run_seed(pid, 10_000_000 + i)
        print("DIGEST " + execute_case(mod, mod.generate(seed, "quick"))["digest"])
    return 0


def run_check(pid, tier):
    t0 = time.time()
    mod = load_prop(pid)
    sut()
    cfg = dict(mod.TIERS[tier])
    if os.environ.get("VERIF_WALL_CAP"):
        cfg["wall_cap"] = float(os.environ["VERIF_WALL_CAP"])  # shorter soak of the same tier (development aid)
    known, _fixed = load_findings()
    print(f"[{pid}] tier={tier} VERIF_SEED={batch_seed()} repo={REPO} runs={cfg['runs']}", flush=True)

    det_ok, det = determinism_selftest(pid, tier, n=cfg.get("det_seeds", 16))
    if not det_ok:
        # Either the harness or the code under test carries state from one run to the next.  Keep going: if the
        # batch pins a violation that replays in a fresh interpreter it is reported; otherwise this is exit 2.
        print(f"[{pid}] determinism self-test failed: {det}", flush=True)

    # stored replays of known findings: print the KNOWN-FINDING line if they still reproduce
    known_seen = []
    for k in known:
        if k["property"] != pid:
            continue
        path = os.path.join(ROOT, k["replay"]) if k.get("replay") else None
        if path and os.path.exists(path):
            rc = replay_file(path, quiet=True)
            if rc == EXIT_VIOLATION:
                print(f"KNOWN-FINDING: property={pid} {k['text']}", flush=True)
                known_seen.append(k["sig"])
            else:
                print(f"[{pid}] note: known finding no longer reproduces: {k['sig']}", flush=True)

    extra = {}
    if hasattr(mod, "pre_batch"):
        extra = mod.pre_batch(tier) or {}
        if extra.get("violations"):
            pass
    round_size = cfg.get("round", 2400)
    merged = None
    done = 0
    conflict_viol = []
    # at least one round, even if the self-tests before it used up the wall-clock cap (an overloaded machine)
    while done < cfg["runs"] and (merged is None or time.time() - t0 < cfg["wall_cap"]):
        n = min(round_size, cfg["runs"] - done)
        part = run_batch(pid, tier, n, max(60.0, cfg["wall_cap"] - (time.time() - t0) + 5), offset=done)
        done += n
        for name, key, v1, v2 in part["stats"].pop("_conflicts", [])[:3]:
            case = mod.conflict_case(name, key, v1, v2, tier)
            r = execute_case(mod, case)
            if not r["violation"]:
                raise HarnessError(f"table conflict {name} {key} does not reproduce as a pair case")
            conflict_viol.append((-1, v1[1][0], case, r["violation"]))
        tables = part["stats"].pop("_maps", {})
        part["stats"]["table_entries"] = {k: len(v) for k, v in tables.items()}
        del tables
        if merged is None:
            merged = part
        else:
            for k in ("digests", "violations", "nontrivial", "errors"):
                merged[k] += part[k]
            merged["samples"] = (merged["samples"] + part["samples"])[:3]
            merged["runs"] += part["runs"]
            merged["wall_s"] += part["wall_s"]
            merge_stats(merged["stats"], part["stats"])
        if merged["errors"] or len(merged["violations"]) > 200:
            break
    merged["violations"] = conflict_viol + merged["violations"]
    if merged["errors"]:
        i, seed, tb = merged["errors"][0]
        print(f"[{pid}] HARNESS: {len(merged['errors'])} run(s) raised inside the harness; first: run {i} seed {seed}\n{tb}", flush=True)
        return EXIT_HARNESS

    viol_counts = merged["stats"].pop("_viol_counts", {})
    # a listed known finding must stay as rare as documented: a surge is a different violation of the property
    rate_viol = []
    for sig, bound in getattr(mod, "KNOWN_RATE_BOUNDS", {}).items():
        cnt = viol_counts.get(sig, 0)
        if merged["runs"] >= 300 and cnt / merged["runs"] > bound:
            case = {"rate": {"property": pid, "sig": sig, "n": 300, "offset": 0, "bound": bound, "tier": tier,
                             "verif_seed": batch_seed()}}
            st, v = run_isolated(_violation_of, pid, case)
            if st == "ok" and v:
                rate_viol.append((-1, batch_seed(), case, v))
            else:
                print(f"[{pid}] note: {sig} occurred in {cnt}/{merged['runs']} runs (bound {bound}) but the 300-run "
                      f"replay batch stays below the bound", flush=True)
    merged["violations"] = rate_viol + merged["violations"]
    # group violations by signature (a few candidate cases per signature)
    by_sig = {}
    for i, seed, case, v in list(extra.get("violations", [])) + merged["violations"]:
        lst = by_sig.setdefault(v["sig"], [])
        if len(lst) < 4:
            lst.append((i, seed, case, v))
    nviol = 0
    unreproducible = []
    for sig, cands in sorted(by_sig.items()):
        k = match_known(pid, sig, known)
        if k:
            if k["sig"] not in known_seen:
                print(f"KNOWN-FINDING: property={pid} {k['text']}", flush=True)
                known_seen.append(k["sig"])
            continue
        if nviol >= 6:
            nviol += 1
            continue
        pinned = False
        for i, seed, case, v in cands:
            # a violation only counts when its replay file reproduces it in a fresh interpreter.  All executions of the
            # code under test happen in forked children, so this process (and the children forked later) stay pristine.
            st, res = run_isolated(_minimise_in_child, pid, case, sig, cfg.get("min_tests", 800))
            tries = []
            if st == "ok" and res[0] is not None:
                tries.append(res)
            for cand, viol in tries:
                path = write_replay(pid, seed, cand, viol)
                rc, out = replay_in_fresh_interpreter(path, hashseed="0")
                if rc == EXIT_VIOLATION:
                    pinned = True
                    r = {"violation": viol}
                    break
            if not pinned and _same_isolated(pid, case, sig):
                # the violation is real in a fresh process but minimisation was misled by state carried between runs
                small = minimise_isolated(pid, case, sig, max_tests=120)
                st, viol = run_isolated(_violation_of, pid, small)
                if st == "ok" and viol and viol["sig"] == sig:
                    path = write_replay(pid, seed, small, viol)
                    rc, out = replay_in_fresh_interpreter(path, hashseed="0")
                    if rc == EXIT_VIOLATION:
                        pinned = True
                        r = {"violation": viol}
            if pinned:
                break
        if not pinned:
            unreproducible.append(sig)
            print(f"[{pid}] note: violation {sig} was seen in a worker but does not replay in a fresh interpreter "
                  f"(state carried between runs?)", flush=True)
            continue
        nviol += 1
        print(f"[{pid}] violation sig={sig} seed={seed} run={i}: {short(json.dumps(r['violation']['detail'], default=repr), 700)}", flush=True)
        print(f"VIOLATION property={pid} replay={path}", flush=True)

    wall = time.time() - t0
    distinct = len(set(merged["digests"]))
    nontrivial = len(set(merged["nontrivial"]))
    stats = merged["stats"]
    coverage = {
        "evaluations": merged["runs"],
        "distinct_nontrivial": nontrivial,
        "rule": mod.RULE,
        "samples": merged["samples"][:3],
        "distinct_event_logs": distinct,
        "runs_per_hour": int(merged["runs"] / max(merged["wall_s"], 1e-6) * 3600),
        "seeds": f"blake2b(VERIF_SEED/{pid}/i) for i in 0..{cfg['runs'] - 1}",
        "determinism_selftest": det,
        "known_findings_seen": known_seen,
        "components": mod.COMPONENTS,
    }
    sets = stats.pop("_sets", {})
    for k, v in sets.items():
        coverage["distinct_" + k] = len(v)
    coverage["known_finding_hits"] = {k: v for k, v in viol_counts.items() if match_known(pid, k, known)}
    for k, v in stats.items():
        coverage[k] = v
    for k, v in extra.items():
        if k != "violations":
            coverage[k] = v
    if hasattr(mod, "sim_time"):
        coverage["simulated_time"] = mod.sim_time(stats)
    else:
        coverage["simulated_time"] = {"unit": "operations executed against live objects (logical steps; the system under test has no wall-clock timer)",
                                      "value": stats.get("ops", 0)}
    coverage["interleavings_measure"] = ("distinct event-log / draw-trace digests (distinct_event_logs); for Engine H also distinct abstract "
                                         "states and (state, operation, outcome) transitions; interleavings are over live objects of one caller, not threads")
    if hasattr(mod, "reach_warnings"):
        for w in mod.reach_warnings(stats):
            print(f"REACH-WARNING probe={w}", file=sys.stderr, flush=True)
            coverage.setdefault("reach_warnings", []).append(w)
    write_evidence(pid, tier, mod.LEVEL, coverage, wall, nviol, mod.ASSUMPTIONS)
    print(f"[{pid}] runs={merged['runs']} distinct={distinct} nontrivial={nontrivial} "
          f"violations={nviol} known={len(known_seen)} wall={wall:.1f}s", flush=True)
    if nviol:
        return EXIT_VIOLATION
    if not det_ok or unreproducible:
        print(f"[{pid}] HARNESS: runs are not reproducible (determinism self-test ok={det_ok}, unreplayable signatures "
              f"{unreproducible[:4]}) and no violation was pinned", flush=True)
        return EXIT_HARNESS
    return EXIT_OK
