"""Reference models of the four containers (DESIGN.md 4.4 and Appendix A).

nodes: dict label -> metadata;  edges: dict key -> [weight, metadata]
key = frozenset                      (H  Hypergraph)
      (frozenset, frozenset)         (D  DirectedHypergraph)
      (time, frozenset)              (T  TemporalHypergraph)
      (frozenset, layer)             (M  MultiplexHypergraph)
No code is shared with the library; nothing here reads the library's objects.
"""
import copy
import json

from .core import Ambiguous, cmeta, tag

SIZES = (0, 1, 2, 3, 4, 5, 6)
WINDOWS = [(a, b) for a in range(0, 8) for b in range(a, 8)] + [
    (0, 10), (8, 40), (9, 18), (17, 18), (0, 1001), (1000, 1001), (33, 2**31), (0, 2**31 + 1), (2**31 - 1, 10**13)]


def jcopy(x):
    return json.loads(json.dumps(x))


def valid_edge_nodes(ns):
    return len(ns) > 0 and len(set(ns)) == len(ns)


class Model:
    def __init__(self, kind, weighted, hmeta=None):
        self.kind = kind
        self.weighted = weighted
        self.nodes = {}
        self.edges = {}
        types = {"H": "Hypergraph", "D": "DirectedHypergraph", "T": "TemporalHypergraph",
                 "M": "MultiplexHypergraph"}
        self.hmeta = dict(hmeta or {})
        self.hmeta.update({"weighted": weighted, "type": types[kind]})
        self.layers_ever = set()
        self.hmeta_unknown = False  # after clear(): adopt observation

    def fork(self):
        return copy.deepcopy(self)

    # ------------------------------------------------------------- keys
    def key(self, op, e=None, t=None, layer=None):
        """Build the model key from JSON arguments; raises Ambiguous for shapes outside
        the quantifier (repeated node, empty set, overlapping source/target)."""
        k = self.kind
        e = op["e"] if e is None else e
        if k == "D":
            s, tg = e
            if not valid_edge_nodes(s) or not valid_edge_nodes(tg) or set(s) & set(tg):
                raise Ambiguous("directed edge shape")
            return (frozenset(s), frozenset(tg))
        if not valid_edge_nodes(e):
            raise Ambiguous("edge shape")
        if k == "H":
            return frozenset(e)
        if k == "T":
            return (op["t"] if t is None else t, frozenset(e))
        return (frozenset(e), op["layer"] if layer is None else layer)

    def knodes(self, key):
        k = self.kind
        if k == "H":
            return key
        if k == "D":
            return key[0] | key[1]
        if k == "T":
            return key[1]
        return key[0]

    def ksize(self, key):
        return len(self.knodes(key))

    def shrink_key(self, key, n):
        k = self.kind
        if k == "H":
            return key - {n}
        if k == "T":
            return (key[0], key[1] - {n})
        if k == "M":
            return (key[0] - {n}, key[1])
        raise Ambiguous("directed shrink")

    # ------------------------------------------------------------ apply
    def apply(self, op):
        """Apply op to the model.  Returns 'ok' or 'reject' (model unchanged)."""
        snapshot = (copy.deepcopy(self.nodes), copy.deepcopy(self.edges), copy.deepcopy(self.hmeta),
                    set(self.layers_ever), self.hmeta_unknown)
        try:
            r = getattr(self, "op_" + op["op"])(op)
        except Ambiguous:
            self.nodes, self.edges, self.hmeta, self.layers_ever, self.hmeta_unknown = snapshot
            raise
        if r == "reject":
            self.nodes, self.edges, self.hmeta, self.layers_ever, self.hmeta_unknown = snapshot
        return r

    # constructor with arguments (Appendix A, first row): only on a pristine object
    def op_ctor(self, op):
        if self.nodes or self.edges or self.hmeta_unknown or not op.get("_first"):
            raise Ambiguous("constructor arguments only for the first operation of the first object")
        types = {"H": "Hypergraph", "D": "DirectedHypergraph", "T": "TemporalHypergraph", "M": "MultiplexHypergraph"}
        self.hmeta = dict(jcopy(op.get("hmeta") or {}))
        self.hmeta.update({"weighted": self.weighted, "type": types[self.kind]})
        for n, md in op.get("nmd") or []:
            self._add_node(n, md)
        if op.get("es"):
            sub = {"op": "add_edges", "es": op["es"]}
            for f in ("ws", "mds", "ts", "layers"):
                if op.get(f) is not None:
                    sub[f] = op[f]
            if self.op_add_edges(sub) != "ok":
                raise Ambiguous("constructor that raises")
        return "ok"

    # nodes
    def _add_node(self, n, md):
        if n not in self.nodes:
            self.nodes[n] = jcopy(md) if md is not None else {}
        elif md:
            raise Ambiguous("add_node on a present node with metadata")

    def op_add_node(self, op):
        self._add_node(op["n"], op.get("md"))
        return "ok"

    def op_add_nodes(self, op):
        mdmap = op.get("mds")
        if mdmap is not None:
            have = [n for n, _ in mdmap]
            if any(n not in have for n in op["ns"]):
                return "reject"
            d = {n: m for n, m in mdmap}
        for n in op["ns"]:
            self._add_node(n, d[n] if mdmap is not None else None)
        return "ok"

    def _remove_node(self, n, keep):
        if n not in self.nodes:
            return "reject"
        inc = [k for k in self.edges if n in self.knodes(k)]
        if keep:
            if self.kind == "D":
                if inc:
                    raise Ambiguous("directed keep_edges on a node with incident hyperedges")
                # a node without incident hyperedges: keep_edges has nothing to decide
            for k in inc:
                nk = self.shrink_key(k, n)
                if len(self.knodes(nk)) == 0 and self.kind != "H":
                    # Temporal / Multiplex drop the emptied record, Hypergraph keeps the empty node set as a hyperedge:
                    # for the plain Hypergraph the abstract map simply contains the empty set (size 0, order -1)
                    raise Ambiguous("shrunk hyperedge becomes empty")
            # sequential semantics: record by record
            for k in sorted(inc, key=lambda q: sorted(tag(x) for x in self.knodes(q))):
                w, md = self.edges.pop(k)
                nk = self.shrink_key(k, n)
                if nk in self.edges:
                    if cmeta(self.edges[nk][1]) != cmeta(md):
                        raise Ambiguous("merge with different metadata")
                    if self.weighted:
                        self.edges[nk][0] = self.edges[nk][0] + w
                else:
                    self.edges[nk] = [w, md]
        else:
            for k in inc:
                del self.edges[k]
        del self.nodes[n]
        return "ok"

    def op_remove_node(self, op):
        return self._remove_node(op["n"], op.get("keep", False))

    def op_remove_nodes(self, op):
        ns = op["ns"]
        if len(set(ns)) != len(ns) or any(n not in self.nodes for n in ns):
            return "reject"
        for n in ns:
            self._remove_node(n, op.get("keep", False))
        return "ok"

    # edges
    def _time_ok(self, t):
        if type(t) is bool:
            raise Ambiguous("bool time")
        return type(t) is int and t >= 0

    def _add_edge(self, key, w, md):
        if not self.weighted and w is not None and w != 1:
            return "reject"
        if self.kind == "M":
            self.layers_ever.add(key[1])
        if key not in self.edges:
            self.edges[key] = [(w if (self.weighted and w is not None) else 1), jcopy(md) if md else {}]
            for n in self.knodes(key):
                if n not in self.nodes:
                    self.nodes[n] = {}
        else:
            stored = self.edges[key][1]
            if cmeta(md if md else {}) != cmeta(stored):
                raise Ambiguous("re-insert with different metadata")
            if self.weighted:
                self.edges[key][0] = self.edges[key][0] + (w if w is not None else 1)
        return "ok"

    def op_add_edge(self, op):
        if self.kind == "T" and not self._time_ok(op["t"]):
            return "reject"
        return self._add_edge(self.key(op), op.get("w"), op.get("md"))

    def op_add_edges(self, op):
        es, ws, mds = op["es"], op.get("ws"), op.get("mds")
        ts, layers = op.get("ts"), op.get("layers")
        if ws is not None and not self.weighted:
            raise Ambiguous("weights on an unweighted object")
        if self.kind == "T" and len(ts) != len(es):
            return "reject"
        if self.kind == "M" and len(layers) != len(es):
            raise Ambiguous("layer list length")
        if ws is not None:
            if len(ws) != len(es):
                return "reject"
            raw = [json.dumps([e, (layers[i] if self.kind == "M" else None)]) for i, e in enumerate(es)]
            if len(set(raw)) != len(raw):
                if self.kind == "D":
                    raise Ambiguous("directed weighted batch repeating a tuple (docstring: weight is updated)")
                return "reject"
            if self.kind == "T":
                rawt = [json.dumps(e) for e in es]
                if len(set(rawt)) != len(rawt):
                    raise Ambiguous("temporal weighted batch repeating a node tuple")
        if mds is not None and len(mds) != len(es):
            if len(mds) == 0:
                raise Ambiguous("empty metadata list (reads as 'not given')")
            if len(mds) < len(es):
                return "reject"
            raise Ambiguous("metadata list longer than edge list")
        if self.kind == "T":
            for t in ts:
                if not self._time_ok(t):
                    return "reject"
        keys = []
        for i, e in enumerate(es):
            keys.append(self.key(op, e=e, t=ts[i] if ts else None, layer=layers[i] if layers else None))
        if ws is not None and len(set(keys)) != len(keys):
            raise Ambiguous("weighted batch with one key spelled twice")
        for i, k in enumerate(keys):
            r = self._add_edge(k, ws[i] if ws is not None else None, mds[i] if mds is not None else None)
            if r == "reject":
                return "reject"
        return "ok"

    def op_remove_edge(self, op):
        if self.kind == "T":
            t = op["t"]
            if type(t) is not int:
                # absent anyway; an odd time can never name a record
                return "reject"
        k = self.key(op)
        if k not in self.edges:
            return "reject"
        del self.edges[k]
        return "ok"

    def op_remove_edges(self, op):
        keys = [self.key(op, e=e) for e in op["es"]]
        if len(set(keys)) != len(keys) or any(k not in self.edges for k in keys):
            return "reject"
        for k in keys:
            del self.edges[k]
        return "ok"

    def op_set_weight(self, op):
        k = self.key(op)
        w = op["w"]
        if k not in self.edges:
            return "reject"
        if not self.weighted and w != 1:
            return "reject"
        if not self.weighted and type(w) is not int:
            raise Ambiguous("1.0 on unweighted")
        self.edges[k][0] = w
        return "ok"

    # metadata
    def op_set_node_md(self, op):
        if op["n"] not in self.nodes:
            return "reject"
        self.nodes[op["n"]] = jcopy(op["md"])
        return "ok"

    def op_set_edge_md(self, op):
        k = self.key(op)
        if k not in self.edges:
            return "reject"
        self.edges[k][1] = jcopy(op["md"])
        return "ok"

    def op_set_hg_md(self, op):
        self.hmeta = jcopy(op["md"])
        self.hmeta_unknown = False
        return "ok"

    def op_set_layer_md(self, op):
        if self.hmeta_unknown:
            raise Ambiguous("hypergraph metadata after clear")
        self.hmeta["multiplex_metadata" if op.get("dataset") else op["layer"]] = jcopy(op["md"])
        return "ok"

    def op_set_attr_hg(self, op):
        if self.hmeta_unknown:
            raise Ambiguous("hypergraph metadata after clear")
        self.hmeta[op["f"]] = jcopy(op["v"])
        return "ok"

    def op_set_attr_node(self, op):
        if op["n"] not in self.nodes:
            return "reject"
        self.nodes[op["n"]][op["f"]] = jcopy(op["v"])
        return "ok"

    def op_set_attr_edge(self, op):
        k = self.key(op)
        if k not in self.edges:
            return "reject"
        self.edges[k][1][op["f"]] = jcopy(op["v"])
        return "ok"

    def op_rm_attr_node(self, op):
        if op["n"] not in self.nodes or op["f"] not in self.nodes[op["n"]]:
            return "reject"
        del self.nodes[op["n"]][op["f"]]
        return "ok"

    def op_rm_attr_edge(self, op):
        k = self.key(op)
        if k not in self.edges or op["f"] not in self.edges[k][1]:
            return "reject"
        del self.edges[k][1][op["f"]]
        return "ok"

    def op_clear(self, op):
        if self.kind == "M":
            raise Ambiguous("multiplex has no clear")
        self.nodes.clear()
        self.edges.clear()
        self.hmeta_unknown = True
        return "ok"

    # filter (C19a) -- the statement applied literally
    def op_filter(self, op):
        mode = op["mode"]
        if mode not in ("keep", "remove"):
            return "reject"
        keep_edges = op.get("keep", False)

        def matches(md, crit):
            for attr, allowed in crit.items():
                v = md.get(attr) if isinstance(md, dict) else None
                # "the item's value is one of the allowed values" with Python equality (0 == False == 0.0)
                if not any(v == a for a in allowed):
                    return False
            return True

        nc, ec = op.get("nc"), op.get("ec")
        if nc is not None:
            doomed = [n for n, md in self.nodes.items()
                      if (mode == "keep") != matches(md, nc)]
            for n in sorted(doomed, key=tag):
                self._remove_node(n, keep_edges)
        if ec is not None:
            doomed = [k for k, (w, md) in self.edges.items() if (mode == "keep") != matches(md, ec)]
            for k in doomed:
                del self.edges[k]
        return "ok"

    # ---------------------------------------------------------- canonical forms
    def cedge(self, key):
        k = self.kind
        if k == "H":
            return "(" + ",".join(sorted(tag(n) for n in key)) + ")"
        if k == "D":
            return "(" + ",".join(sorted(tag(n) for n in key[0])) + ")->(" + ",".join(sorted(tag(n) for n in key[1])) + ")"
        if k == "T":
            return tag(key[0]) + "@(" + ",".join(sorted(tag(n) for n in key[1])) + ")"
        return "(" + ",".join(sorted(tag(n) for n in key[0])) + ")#" + tag(key[1])

    def content(self):
        """Abstract content (used for digests / distinct states)."""
        return {
            "kind": self.kind,
            "weighted": self.weighted,
            "nodes": {tag(n): cmeta(md) for n, md in self.nodes.items()},
            "edges": {self.cedge(k): [tag(w), cmeta(md)] for k, (w, md) in self.edges.items()},
            "hmeta": cmeta(self.hmeta),
        }

    # ------------------------------------------------------------- observation
    def _filt(self, size, up):
        return [k for k in self.edges if (self.ksize(k) <= size if up else self.ksize(k) == size)]

    def observe(self, universe, probe_keys, sizes=None):
        """Everything the property lists as a query, as one canonical dict.  The set of
        keys must coincide with observe.observe() for the same kind."""
        k = self.kind
        ce = self.cedge
        E = self.edges
        o = {}
        SZ = sizes or SIZES
        o["nodes"] = sorted(tag(n) for n in self.nodes)
        o["nodes_md"] = {tag(n): cmeta(md) for n, md in self.nodes.items()}
        o["edges"] = sorted(ce(q) for q in E)
        o["edges_md"] = {ce(q): cmeta(E[q][1]) for q in E}
        o["is_weighted"] = self.weighted
        if not self.hmeta_unknown:
            o["hmeta"] = cmeta(self.hmeta)
        o["weight"] = {ce(q): tag(E[q][0]) for q in E}
        o["inc"] = {tag(n): sorted(ce(q) for q in E if n in self.knodes(q)) for n in self.nodes}
        o["deg"] = {tag(n): sum(1 for q in E if n in self.knodes(q)) for n in self.nodes}
        o["degseq"] = dict(o["deg"])
        if k == "M":
            o["layers_lower"] = sorted({tag(q[1]) for q in E})
            o["layers_upper"] = sorted(tag(l) for l in self.layers_ever)
            o["edge_md"] = {ce(q): cmeta(E[q][1]) for q in E}
            return o
        o["num_nodes"] = len(self.nodes)
        o["num_edges"] = len(E)
        o["len"] = len(E)
        o["node_md"] = dict(o["nodes_md"])
        o["all_nodes_md"] = dict(o["nodes_md"]) if k != "D" else sorted(o["nodes_md"].values())
        o["all_edges_md"] = sorted(cmeta(E[q][1]) for q in E)
        o["edge_md"] = dict(o["edges_md"])
        o["weights"] = sorted(tag(E[q][0]) for q in E)
        o["weights_dict"] = dict(o["weight"])
        o["check_node"] = {tag(n): (n in self.nodes) for n in universe}
        o["check_edge"] = {ce(q): (q in E) for q in probe_keys}
        sizes = sorted(self.ksize(q) for q in E)
        o["sizes"] = sizes
        o["orders"] = [s - 1 for s in sizes]
        dist = {}
        for s in sizes:
            dist[s] = dist.get(s, 0) + 1
        o["dist_sizes"] = {str(s): c for s, c in dist.items()}
        o["is_uniform"] = len(set(sizes)) <= 1
        if E:
            o["max_size"] = max(sizes)
            o["max_order"] = max(sizes) - 1
        o["nbr"] = {tag(n): sorted({tag(m) for q in E if n in self.knodes(q) for m in self.knodes(q)} - {tag(n)})
                    for n in self.nodes}
        o["isolated"] = sorted(n for n, v in o["nbr"].items() if not v)
        o["is_isolated"] = {n: (not v) for n, v in o["nbr"].items()}
        dd = {}
        for d in o["deg"].values():
            dd[str(d)] = dd.get(str(d), 0) + 1
        o["degdist"] = dd
        for s in SZ:
            for up in (False, True):
                sel = self._filt(s, up)
                name = f"size={s}/up={int(up)}"
                o["edges/" + name] = sorted(ce(q) for q in sel)
                o["weights/" + name] = sorted(tag(E[q][0]) for q in sel)
                o["weights_dict/" + name] = {ce(q): tag(E[q][0]) for q in sel}
                if k != "D":
                    o["num_edges/" + name] = len(sel)
            sel = self._filt(s, False)
            o[f"inc/size={s}"] = {tag(n): sorted(ce(q) for q in sel if n in self.knodes(q)) for n in self.nodes}
            o[f"nbr/size={s}"] = {
                tag(n): sorted({tag(m) for q in sel if n in self.knodes(q) for m in self.knodes(q)} - {tag(n)})
                for n in self.nodes}
            o[f"isolated/size={s}"] = sorted(n for n, v in o[f"nbr/size={s}"].items() if not v)
            o[f"is_isolated/size={s}"] = {n: (not v) for n, v in o[f"nbr/size={s}"].items()}
            o[f"deg/size={s}"] = {tag(n): sum(1 for q in sel if n in self.knodes(q)) for n in self.nodes}
            dd = {}
            for d in o[f"deg/size={s}"].values():
                dd[str(d)] = dd.get(str(d), 0) + 1
            o[f"degdist/size={s}"] = dd
        if k == "D":
            o["sources"] = sorted("(" + ",".join(sorted(tag(n) for n in q[0])) + ")" for q in E)
            o["targets"] = sorted("(" + ",".join(sorted(tag(n) for n in q[1])) + ")" for q in E)
            o["src_edges"] = {tag(n): sorted(ce(q) for q in E if n in q[0]) for n in self.nodes}
            o["tgt_edges"] = {tag(n): sorted(ce(q) for q in E if n in q[1]) for n in self.nodes}
            o["in_deg"] = {tag(n): sum(1 for q in E if n in q[0]) for n in self.nodes}
            o["in_degseq"] = dict(o["in_deg"])
            o["out_deg"] = {tag(n): sum(1 for q in E if n in q[1]) for n in self.nodes}
            o["out_degseq"] = dict(o["out_deg"])
            for s in SZ:
                sel = self._filt(s, False)
                o[f"src_edges/size={s}"] = {tag(n): sorted(ce(q) for q in sel if n in q[0]) for n in self.nodes}
                o[f"tgt_edges/size={s}"] = {tag(n): sorted(ce(q) for q in sel if n in q[1]) for n in self.nodes}
                o[f"in_deg/size={s}"] = {tag(n): sum(1 for q in sel if n in q[0]) for n in self.nodes}
                o[f"out_deg/size={s}"] = {tag(n): sum(1 for q in sel if n in q[1]) for n in self.nodes}
        if k == "T":
            if E:
                o["min_time"] = min(q[0] for q in E)
                o["max_time"] = max(q[0] for q in E)
            o["times_for"] = {}
            for ns in {q[1] for q in E} | {q[1] for q in probe_keys}:
                o["times_for"]["(" + ",".join(sorted(tag(n) for n in ns)) + ")"] = sorted(
                    q[0] for q in E if q[1] == ns)
            for a, b in WINDOWS:
                o[f"window/{a}-{b}"] = sorted(ce(q) for q in E if a <= q[0] < b)
            o["window/1-6/size=2"] = sorted(ce(q) for q in E if 1 <= q[0] < 6 and len(q[1]) == 2)
            o["window/0-4/size=3/up"] = sorted(ce(q) for q in E if 0 <= q[0] < 4 and len(q[1]) <= 3)
        return o
