"""Observation of a live library object through its public API only, and application
of a JSON operation to it.  The key set mirrors models.Model.observe()."""
from .core import cmeta, sut, tag
from .models import SIZES, WINDOWS


# Sparse observation (DESIGN 12.9): the names of the queries NOT made at this step.  A query is named by the function it
# calls, with a trailing "*" when it is called with keyword filters (get_edges* = get_edges(size=...) etc.).  Whatever a
# muted query would have contributed is left out of the comparison of this step - on both sides.
MUTED = set()
MUTABLE = ["get_sizes", "get_orders", "distribution_sizes", "max_size", "max_order", "is_uniform", "degree_distribution",
           "degree_distribution*", "degree_sequence", "num_edges", "num_edges*", "num_nodes", "len", "get_weights", "get_weights*",
           "get_edges*", "get_nodes*", "get_all_nodes_metadata", "get_all_edges_metadata", "get_neighbors", "get_neighbors*", "isolated_nodes", "isolated_nodes*", "is_isolated", "is_isolated*",
           "degree", "degree*", "get_incident_edges", "get_incident_edges*", "check_edge", "check_node", "get_sources",
           "get_targets", "get_source_edges", "get_source_edges*", "get_target_edges", "get_target_edges*", "in_degree",
           "in_degree*", "out_degree", "out_degree*", "min_time", "max_time", "get_times_for_edge", "get_weight",
           "get_edge_metadata", "get_node_metadata", "is_weighted", "get_hypergraph_metadata"]
MUTED_TEXT = "!EXC:MUTED"


def q(f, *a, **kw):
    """Call a library query; an exception becomes part of the observation."""
    if MUTED and (getattr(f, "__name__", "") + ("*" if (kw or len(a) > 1 or (a and getattr(f, "__name__", "") in ("isolated_nodes", "num_edges"))) else "")) in MUTED:
        return _Exc("MUTED")
    try:
        return f(*a, **kw)
    except Exception as e:  # noqa: the library is the thing under test
        return _Exc(type(e).__name__)


class _Exc:
    def __init__(self, name):
        self.name = name

    def __repr__(self):
        return "!EXC:" + self.name


def _e(x):
    return isinstance(x, _Exc)


def nodes_str(ns):
    try:
        return "(" + ",".join(sorted(tag(n) for n in ns)) + ")"
    except TypeError:
        return "!" + repr(ns)


def cedge(kind, e):
    """Canonical text of an edge as returned by the library."""
    try:
        if kind == "H":
            return nodes_str(e)
        if kind == "D":
            return nodes_str(e[0]) + "->" + nodes_str(e[1])
        if kind == "T":
            return tag(e[0]) + "@" + nodes_str(e[1])
        return nodes_str(e[0]) + "#" + tag(e[1])
    except Exception:
        return "!" + repr(e)


def lst(kind, r):
    if _e(r):
        return repr(r)
    try:
        return sorted(cedge(kind, e) for e in r)
    except Exception:
        return "!" + repr(r)


def tags(r):
    if _e(r):
        return repr(r)
    try:
        return sorted(tag(x) for x in r)
    except Exception:
        return "!" + repr(r)


def mdmap(r):
    if _e(r):
        return repr(r)
    try:
        return {tag(n): cmeta(m) for n, m in r.items()}
    except Exception:
        return "!" + repr(r)


def emap(kind, r, f=cmeta):
    if _e(r):
        return repr(r)
    try:
        return {cedge(kind, e): f(m) for e, m in r.items()}
    except Exception:
        return "!" + repr(r)


def val(r):
    return repr(r) if _e(r) else r


def boolval(r):
    if _e(r):
        return repr(r)
    if r == True:  # noqa: E712  compared with == on purpose (Appendix A)
        return True
    if r == False:  # noqa: E712
        return False
    return "!" + repr(r)


def raw_key(kind, key):
    """Model key -> arguments as the library wants them (sorted tuples)."""
    st = lambda s: tuple(sorted(s, key=tag))  # noqa
    if kind == "H":
        return (st(key),)
    if kind == "D":
        return ((st(key[0]), st(key[1])),)
    if kind == "T":
        return (st(key[1]), key[0])
    return (st(key[0]), key[1])


def observe(kind, h, universe, probe_keys, flip=0, sizes=None):
    """flip (0/1) swaps which of the two spellings (size= / order=) each filtered query uses."""
    o = {}
    SZ = sizes or SIZES
    pos3 = flip // 2  # which sizes are asked with a POSITIONAL filter argument at this step (documented parameter order)
    flip = flip % 2
    nodes = q(h.get_nodes)
    o["nodes"] = tags(nodes)
    present = [] if _e(nodes) else list(nodes)
    o["nodes_md"] = mdmap(q(h.get_nodes, metadata=True))
    edges = q(h.get_edges)
    o["edges"] = lst(kind, edges)
    elist = [] if _e(edges) else list(edges)
    o["edges_md"] = emap(kind, q(h.get_edges, metadata=True))
    o["is_weighted"] = val(q(h.is_weighted))
    o["hmeta"] = cmeta(val(q(h.get_hypergraph_metadata)))

    def gw(e):
        if kind == "H" or kind == "D":
            return q(h.get_weight, e)
        if kind == "T":
            return q(h.get_weight, e[1], e[0])
        return q(h.get_weight, e[0], e[1])

    def gm(e):
        if kind == "H" or kind == "D":
            return q(h.get_edge_metadata, e)
        if kind == "T":
            return q(h.get_edge_metadata, e[1], e[0])
        return q(h.get_edge_metadata, e[0], e[1])

    o["weight"] = {cedge(kind, e): tag(val(gw(e))) for e in elist}
    o["inc"] = {tag(n): lst(kind, q(h.get_incident_edges, n)) for n in present}
    o["deg"] = {tag(n): val(q(h.degree, n)) for n in present}
    r = q(h.degree_sequence)
    o["degseq"] = repr(r) if _e(r) else {tag(n): d for n, d in r.items()}
    if kind == "M":
        layers = q(h.get_existing_layers)
        o["layers"] = tags(layers)
        o["edge_md"] = {cedge(kind, e): cmeta(val(gm(e))) for e in elist}
        return o
    o["num_nodes"] = val(q(h.num_nodes))
    o["num_edges"] = val(q(h.num_edges))
    o["len"] = val(q(len, h))
    o["node_md"] = {tag(n): cmeta(val(q(h.get_node_metadata, n))) for n in present}
    r = q(h.get_all_nodes_metadata)
    if kind == "D":
        o["all_nodes_md"] = repr(r) if _e(r) else sorted(cmeta(m) for m in r)
    else:
        o["all_nodes_md"] = mdmap(r)
    r = q(h.get_all_edges_metadata)
    o["all_edges_md"] = repr(r) if _e(r) else sorted(cmeta(m) for m in r.values())
    o["edge_md"] = {cedge(kind, e): cmeta(val(gm(e))) for e in elist}
    o["weights"] = tags(q(h.get_weights))
    o["weights_dict"] = emap(kind, q(h.get_weights, asdict=True), tag)
    o["check_node"] = {tag(n): boolval(q(h.check_node, n)) for n in universe}
    ce = {}
    for key in probe_keys:
        from .models import Model  # only for the canonical text of a key

        name = _ckey(kind, key)
        ce[name] = boolval(q(h.check_edge, *raw_key(kind, key)))
    o["check_edge"] = ce
    r = q(h.get_sizes)
    o["sizes"] = repr(r) if _e(r) else sorted(r)
    r = q(h.get_orders)
    o["orders"] = repr(r) if _e(r) else sorted(r)
    r = q(h.distribution_sizes)
    o["dist_sizes"] = repr(r) if _e(r) else {str(s): c for s, c in r.items()}
    o["is_uniform"] = val(q(h.is_uniform))
    if elist:
        o["max_size"] = val(q(h.max_size))
        o["max_order"] = val(q(h.max_order))
    o["nbr"] = {tag(n): tags(q(h.get_neighbors, n)) for n in present}
    o["isolated"] = tags(q(h.isolated_nodes))
    o["is_isolated"] = {tag(n): boolval(q(h.is_isolated, n)) for n in present}
    r = q(h.degree_distribution)
    o["degdist"] = repr(r) if _e(r) else {str(d): c for d, c in r.items()}
    for s in SZ:
        for up in (False, True):
            name = f"size={s}/up={int(up)}"
            # alternate between the size= and order= spelling of the same filter
            if (s + up + flip) % 2:
                a = q(h.get_edges, size=s, up_to=up)
                w = q(h.get_weights, order=s - 1, up_to=up)
                wd = q(h.get_weights, size=s, up_to=up, asdict=True)
            else:
                a = q(h.get_edges, order=s - 1, up_to=up)
                w = q(h.get_weights, size=s, up_to=up)
                wd = q(h.get_weights, order=s - 1, up_to=up, asdict=True)
            o["edges/" + name] = lst(kind, a)
            o["weights/" + name] = tags(w)
            o["weights_dict/" + name] = emap(kind, wd, tag)
            if kind != "D":
                o["num_edges/" + name] = val(
                    q(h.num_edges, size=s, up_to=up) if (s + flip) % 2 else q(h.num_edges, order=s - 1, up_to=up))
        kw = {"size": s} if (s + flip) % 2 else {"order": s - 1}
        kw2 = {"order": s - 1} if (s + flip) % 2 else {"size": s}
        if (s + pos3) % 3 == 0:
            # positional spelling: (node, order, size) for neighbours / incidence / degree, (node, size, order) for the
            # isolated-node queries - the parameter order of the public signatures is part of the API
            o[f"inc/size={s}"] = {tag(n): lst(kind, q(h.get_incident_edges, n, s - 1)) for n in present}
            o[f"nbr/size={s}"] = {tag(n): tags(q(h.get_neighbors, n, s - 1)) for n in present}
            o[f"isolated/size={s}"] = tags(q(h.isolated_nodes, s))
            o[f"is_isolated/size={s}"] = {tag(n): boolval(q(h.is_isolated, n, s)) for n in present}
            o[f"deg/size={s}"] = {tag(n): val(q(h.degree, n, s - 1)) for n in present}
        else:
            o[f"inc/size={s}"] = {tag(n): lst(kind, q(h.get_incident_edges, n, **kw)) for n in present}
            o[f"nbr/size={s}"] = {tag(n): tags(q(h.get_neighbors, n, **kw2)) for n in present}
            o[f"isolated/size={s}"] = tags(q(h.isolated_nodes, **kw))
            o[f"is_isolated/size={s}"] = {tag(n): boolval(q(h.is_isolated, n, **kw2)) for n in present}
            o[f"deg/size={s}"] = {tag(n): val(q(h.degree, n, **kw2)) for n in present}
        r = q(h.degree_distribution, **kw)
        o[f"degdist/size={s}"] = repr(r) if _e(r) else {str(d): c for d, c in r.items()}
    if kind == "D":
        from hypergraphx.measures.directed import in_degree, out_degree
        from hypergraphx.measures.directed.degree import in_degree_sequence, out_degree_sequence

        r = q(in_degree_sequence, h)
        o["in_degseq"] = repr(r) if _e(r) else {tag(n): d for n, d in r.items()}
        r = q(out_degree_sequence, h)
        o["out_degseq"] = repr(r) if _e(r) else {tag(n): d for n, d in r.items()}

        o["sources"] = repr(r) if _e(r := q(h.get_sources)) else sorted(nodes_str(x) for x in r)
        o["targets"] = repr(r) if _e(r := q(h.get_targets)) else sorted(nodes_str(x) for x in r)
        o["src_edges"] = {tag(n): lst(kind, q(h.get_source_edges, n)) for n in present}
        o["tgt_edges"] = {tag(n): lst(kind, q(h.get_target_edges, n)) for n in present}
        o["in_deg"] = {tag(n): val(q(in_degree, h, n)) for n in present}
        o["out_deg"] = {tag(n): val(q(out_degree, h, n)) for n in present}
        for s in SZ:
            kw = {"size": s} if (s + flip) % 2 else {"order": s - 1}
            kw2 = {"order": s - 1} if (s + flip) % 2 else {"size": s}
            o[f"src_edges/size={s}"] = {tag(n): lst(kind, q(h.get_source_edges, n, **kw)) for n in present}
            o[f"tgt_edges/size={s}"] = {tag(n): lst(kind, q(h.get_target_edges, n, **kw2)) for n in present}
            o[f"in_deg/size={s}"] = {tag(n): val(q(in_degree, h, n, **kw2)) for n in present}
            o[f"out_deg/size={s}"] = {tag(n): val(q(out_degree, h, n, **kw)) for n in present}
    if kind == "T":
        if elist:
            o["min_time"] = val(q(h.min_time))
            o["max_time"] = val(q(h.max_time))
        tf = {}
        seen = set()
        for e in elist:
            seen.add(frozenset(e[1]))
        for key in probe_keys:
            seen.add(key[1])
        for ns in seen:
            r = q(h.get_times_for_edge, tuple(sorted(ns, key=tag)))
            tf[nodes_str(ns)] = repr(r) if _e(r) else sorted(r)
        o["times_for"] = tf
        for a, b in WINDOWS:
            o[f"window/{a}-{b}"] = lst(kind, q(h.get_edges, time_window=(a, b)))
        o["window/1-6/size=2"] = lst(kind, q(h.get_edges, time_window=(1, 6), size=2))
        o["window/0-4/size=3/up"] = lst(kind, q(h.get_edges, time_window=(0, 4), order=2, up_to=True))
    return o


def _ckey(kind, key):
    if kind == "H":
        return nodes_str(key)
    if kind == "D":
        return nodes_str(key[0]) + "->" + nodes_str(key[1])
    if kind == "T":
        return tag(key[0]) + "@" + nodes_str(key[1])
    return nodes_str(key[0]) + "#" + tag(key[1])


def compare(kind, obs, mobs):
    """Compare a library observation with the model's.  Returns None or (class, path, got, want)."""
    from .core import first_diff

    if kind == "M":
        obs = dict(obs)
        layers = obs.pop("layers")
        lo, up = mobs["layers_lower"], mobs["layers_upper"]
        mobs = {k: v for k, v in mobs.items() if not k.startswith("layers_")}
        if isinstance(layers, str) or not (set(lo) <= set(layers) <= set(up)):
            return ("layers", "/layers", layers, [lo, up])
    if "hmeta" not in mobs:
        obs = {k: v for k, v in obs.items() if k != "hmeta"}
    d = first_diff(obs, mobs)
    if d is None:
        return None
    path, got, want = d
    cls = path.strip("/").split("/")[0]
    return (cls, path, got, want)


# ------------------------------------------------------------------ operations
def new_object(kind, weighted, ctor=None):
    hx = sut()
    cls = {"H": hx.Hypergraph, "D": hx.DirectedHypergraph, "T": hx.TemporalHypergraph,
           "M": hx.MultiplexHypergraph}[kind]
    return cls(weighted=weighted)


def construct(kind, weighted, op):
    """Build an object through the constructor's arguments (fresh copies of every dict)."""
    import json

    cp = lambda x: json.loads(json.dumps(x))  # noqa
    op = cp(op)
    hx = sut()
    cls = {"H": hx.Hypergraph, "D": hx.DirectedHypergraph, "T": hx.TemporalHypergraph, "M": hx.MultiplexHypergraph}[kind]
    kw = {"weighted": weighted}
    if op.get("hmeta") is not None:
        kw["hypergraph_metadata"] = cp(op["hmeta"])
    if op.get("nmd"):
        kw["node_metadata"] = {n: cp(m) for n, m in op["nmd"]}
    if op.get("es"):
        kw["edge_list"] = [_edge_arg(kind, e, "t") for e in op["es"]]
        if op.get("ws") is not None:
            kw["weights"] = list(op["ws"])
        if op.get("mds") is not None:
            kw["edge_metadata"] = [cp(m) for m in op["mds"]]
        if kind == "T":
            kw["time_list"] = list(op["ts"])
        if kind == "M":
            kw["edge_layer"] = list(op["layers"])
    return cls(**kw)


def _edge_arg(kind, e, form):
    mk = tuple if form != "l" else list
    if kind == "D":
        return (mk(e[0]), mk(e[1]))
    return mk(e)


def apply_op(kind, h, op):
    """Apply one JSON operation to the library object.  Returns the exception (or None).
    Every dict handed to the library is a fresh copy (no sharing with the model or the log)."""
    import json

    cp = lambda x: json.loads(json.dumps(x))  # noqa
    # every label, time, layer and value reaches the library as a fresh object that is equal to, but not the same object
    # as, what earlier calls passed (large ints and strings are not interned): code that compares with `is` is exposed
    op = cp(op)
    name = op["op"]
    form = op.get("form", "t")
    seq = op.get("seq")

    def batch(x):
        """How the batch argument of add_nodes / remove_nodes / remove_edges is handed over: list, tuple or one-shot iterator."""
        x = list(x)
        return tuple(x) if seq == "tuple" else (iter(x) if seq == "iter" else x)

    try:
        if name == "add_node":
            if "md" in op and op["md"] is not None:
                h.add_node(op["n"], cp(op["md"])) if op.get("pos") else h.add_node(op["n"], metadata=cp(op["md"]))
            else:
                h.add_node(op["n"])
        elif name == "add_nodes":
            if op.get("mds") is not None:
                d = {n: cp(m) for n, m in op["mds"]}
                if kind == "M":
                    h.add_nodes(batch(op["ns"]), node_metadata=d)
                else:
                    h.add_nodes(batch(op["ns"]), metadata=d)
            else:
                h.add_nodes(batch(op["ns"]))
        elif name == "add_edge":
            kw = {}
            if op.get("w") is not None:
                kw["weight"] = op["w"]
            if op.get("md") is not None:
                kw["metadata"] = cp(op["md"])
            e = _edge_arg(kind, op["e"], form)
            if kind == "T":
                h.add_edge(e, op["t"], **kw)
            elif kind == "M":
                h.add_edge(e, op["layer"], **kw)
            else:
                h.add_edge(e, **kw)
        elif name == "add_edges":
            es = [_edge_arg(kind, e, "t") for e in op["es"]]
            kw = {}
            if op.get("ws") is not None:
                kw["weights"] = list(op["ws"])
            if op.get("mds") is not None:
                kw["metadata"] = [cp(m) for m in op["mds"]]
            if kind == "T":
                h.add_edges(es, list(op["ts"]), **kw)
            elif kind == "M":
                h.add_edges(es, list(op["layers"]), **kw)
            else:
                h.add_edges(batch(es), **kw)
        elif name == "remove_edge":
            e = _edge_arg(kind, op["e"], form)
            if kind == "T":
                h.remove_edge(e, op["t"])
            elif kind == "M":
                h.remove_edge((e, op["layer"]))
            else:
                h.remove_edge(e)
        elif name == "remove_edges":
            h.remove_edges(batch([_edge_arg(kind, e, "t") for e in op["es"]]))
        elif name == "remove_node":
            if "keep" in op:
                h.remove_node(op["n"], keep_edges=op["keep"])
            else:
                h.remove_node(op["n"])
        elif name == "remove_nodes":
            if "keep" in op:
                h.remove_nodes(batch(op["ns"]), keep_edges=op["keep"])
            else:
                h.remove_nodes(batch(op["ns"]))
        elif name == "set_weight":
            e = _edge_arg(kind, op["e"], form)
            if kind == "T":
                h.set_weight(e, op["t"], op["w"])
            elif kind == "M":
                h.set_weight(e, op["layer"], op["w"])
            else:
                h.set_weight(e, op["w"])
        elif name == "set_node_md":
            h.set_node_metadata(op["n"], cp(op["md"]))
        elif name == "set_edge_md":
            e = _edge_arg(kind, op["e"], form)
            if kind == "T":
                h.set_edge_metadata(e, op["t"], cp(op["md"]))
            else:
                h.set_edge_metadata(e, cp(op["md"]))
        elif name == "set_hg_md":
            h.set_hypergraph_metadata(cp(op["md"]))
        elif name == "set_layer_md":
            if op.get("dataset"):
                h.set_dataset_metadata(cp(op["md"]))
            else:
                h.set_layer_metadata(op["layer"], cp(op["md"]))
        elif name == "set_attr_hg":
            h.set_attr_to_hypergraph_metadata(op["f"], cp(op["v"]))
        elif name == "set_attr_node":
            h.set_attr_to_node_metadata(op["n"], op["f"], cp(op["v"]))
        elif name == "rm_attr_node":
            h.remove_attr_from_node_metadata(op["n"], op["f"])
        elif name == "set_attr_edge":
            e = _edge_arg(kind, op["e"], form)
            if kind == "T":
                h.set_attr_to_edge_metadata(e, op["t"], op["f"], cp(op["v"]))
            elif kind == "M":
                h.set_attr_to_edge_metadata(e, op["layer"], op["f"], cp(op["v"]))
            else:
                h.set_attr_to_edge_metadata(e, op["f"], cp(op["v"]))
        elif name == "rm_attr_edge":
            e = _edge_arg(kind, op["e"], form)
            if kind == "T":
                h.remove_attr_from_edge_metadata(e, op["t"], op["f"])
            elif kind == "M":
                h.remove_attr_from_edge_metadata(e, op["layer"], op["f"])
            else:
                h.remove_attr_from_edge_metadata(e, op["f"])
        elif name == "clear":
            h.clear()
        elif name == "filter":
            from hypergraphx.filters import filter_hypergraph

            kw = {}
            if op.get("nc") is not None:
                kw["node_criteria"] = cp(op["nc"])
            if op.get("ec") is not None:
                kw["edge_criteria"] = cp(op["ec"])
            if "keep" in op:
                kw["keep_edges"] = op["keep"]
            filter_hypergraph(h, mode=op["mode"], **kw)
        else:
            raise AssertionError("unknown op " + name)
    except AssertionError:
        raise
    except Exception as e:  # noqa: the library is the thing under test
        return e
    return None


# ------------------------------------------------- content extraction / rebuilding
def extract(kind, h):
    """Abstract content of a library object, read through the public API only, with the
    real Python values (used to rebuild twins and to compute expected derivations)."""
    import json

    cp = lambda x: json.loads(json.dumps(x))  # noqa
    nodes = {}
    nm = h.get_nodes(metadata=True)
    for n in h.get_nodes():
        nodes[n] = cp(nm[n]) if n in nm else None
    edges = []
    for e in h.get_edges():
        if kind in ("H", "D"):
            w, md = h.get_weight(e), h.get_edge_metadata(e)
        elif kind == "T":
            w, md = h.get_weight(e[1], e[0]), h.get_edge_metadata(e[1], e[0])
        else:
            w, md = h.get_weight(e[0], e[1]), h.get_edge_metadata(e[0], e[1])
        edges.append([e, w, cp(md)])
    return {"kind": kind, "weighted": h.is_weighted(), "hmeta": cp(h.get_hypergraph_metadata()),
            "nodes": nodes, "edges": edges}


def content_digest(c):
    from .core import digest

    kind = c["kind"]
    return digest({
        "kind": kind, "weighted": tag(c["weighted"]), "hmeta": cmeta(c["hmeta"]),
        "nodes": {tag(n): cmeta(md) for n, md in c["nodes"].items()},
        "edges": sorted([cedge(kind, e), tag(w), cmeta(md)] for e, w, md in c["edges"]),
    })


def build(kind, c, rng=None, weighted=None):
    """A fresh library object with content c, inserted in sorted order (rng None) or in a
    shuffled order with the nodes of every hyperedge permuted."""
    import json

    cp = lambda x: json.loads(json.dumps(x))  # noqa
    wtd = c["weighted"] if weighted is None else weighted
    h = new_object(kind, wtd)
    nodes = sorted(c["nodes"], key=tag)
    edges = sorted(c["edges"], key=lambda r: cedge(kind, r[0]))
    if rng is not None:
        rng.shuffle(nodes)
        rng.shuffle(edges)

    def perm(t):
        t = list(t)
        if rng is not None:
            rng.shuffle(t)
        return tuple(t)

    def add_edges():
        for e, w, md in edges:
            kw = {"metadata": cp(md)}
            if wtd:
                kw["weight"] = w
            if kind == "H":
                h.add_edge(perm(e), **kw)
            elif kind == "D":
                h.add_edge((perm(e[0]), perm(e[1])), **kw)
            elif kind == "T":
                h.add_edge(perm(e[1]), e[0], **kw)
            else:
                h.add_edge(perm(e[0]), e[1], **kw)

    def add_nodes():
        for n in nodes:
            h.add_node(n, cp(c["nodes"][n]))

    if rng is not None and kind != "M" and rng.random() < 0.5:
        # hyperedges first: their nodes get {} and then keep/receive the metadata
        add_edges()
        for n in nodes:
            md = c["nodes"][n]
            if kind == "M":
                h.add_node(n, cp(md))  # add_node fills an empty record (no set_node_metadata on multiplex)
            else:
                h.add_node(n)
                h.set_node_metadata(n, cp(md))
    else:
        add_nodes()
        add_edges()
    h.set_hypergraph_metadata(cp(c["hmeta"]))
    return h
