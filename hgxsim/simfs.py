"""Engine F: a simulated raw file device under the real io stack (DESIGN.md section 5).

builtins.open and io.open are interposed; only paths below the run's scratch root reach the
simulated device.  A simulated file is a SimRaw(io.RawIOBase) wrapped in the *real*
io.BufferedWriter / BufferedReader / TextIOWrapper, so the code under test talks to genuine
stream objects and faults enter where a kernel would inject them.  SimRaw writes through to
a real io.FileIO: the durable bytes are the bytes of a real scratch file."""
import builtins
import errno
import io
import os
import shutil
import tempfile

_REAL_OPEN = io.open


class FaultPlan:
    """kind: None | 'enospc' | 'eio_write' | 'eio_read' | 'open' | 'close'.
    at: byte offset at which the device stops accepting (write kinds) / delivering (read)."""

    def __init__(self, kind=None, at=0, err=None, short_write=0, short_read=0, bufsize=8192):
        self.kind = kind
        self.at = at
        self.err = err
        self.short_write = short_write  # max bytes accepted per raw write (0 = unlimited)
        self.short_read = short_read
        self.bufsize = bufsize
        self.fired = 0

    def describe(self):
        return {"kind": self.kind, "at": self.at, "err": self.err, "short_write": self.short_write,
                "short_read": self.short_read, "bufsize": self.bufsize}


class SimRaw(io.RawIOBase):
    def __init__(self, fs, path, mode):
        super().__init__()
        self.fs = fs
        self.plan = fs.plan
        self.path = path
        self._mode = mode
        self._f = io.FileIO(path, mode)
        self._was_writable = self._f.writable()
        self._pos_w = 0
        self._pos_r = 0
        self.name = path

    # --- capabilities
    def readable(self):
        return self._f.readable()

    def writable(self):
        return self._f.writable()

    def seekable(self):
        return True

    def seek(self, off, whence=0):
        r = self._f.seek(off, whence)
        self._pos_r = r
        return r

    def tell(self):
        return self._f.tell()

    def truncate(self, size=None):
        return self._f.truncate(size)

    @property
    def mode(self):
        return self._mode

    # --- data path
    def write(self, b):
        p = self.plan
        data = bytes(b)
        n = len(data)
        if p.short_write and n > p.short_write:
            n = p.short_write
            self.fs.count("short_write")
        if p.kind in ("enospc", "eio_write"):
            room = p.at - self._pos_w
            if room <= 0 or n > room:
                # the write that crosses the limit persists its prefix (torn file), then fails
                if room > 0:
                    self._f.write(data[:room])
                    self._pos_w += room
                p.fired += 1
                self.fs.count(p.kind)
                raise OSError(errno.ENOSPC if p.kind == "enospc" else errno.EIO,
                              "simulated " + ("no space left on device" if p.kind == "enospc" else "I/O error"))
        self._f.write(data[:n])
        self._pos_w += n
        self.fs.bytes_written += n
        return n

    def readinto(self, b):
        p = self.plan
        want = len(b)
        if p.short_read and want > p.short_read:
            want = p.short_read
            self.fs.count("short_read")
        if p.kind == "eio_read":
            room = p.at - self._pos_r
            if room <= 0:
                p.fired += 1
                self.fs.count("eio_read")
                raise OSError(errno.EIO, "simulated I/O error on read")
            want = min(want, room)
        data = self._f.read(want)
        n = len(data)
        b[:n] = data
        self._pos_r += n
        return n

    def flush(self):
        if not self._f.closed:
            self._f.flush()

    def close(self):
        if self.closed:
            return
        p = self.plan
        try:
            self._f.close()
        finally:
            super().close()
        if p.kind == "close" and self._was_writable and not p.fired:
            p.fired += 1
            self.fs.count("close")
            raise OSError(errno.EIO, "simulated delayed write error at close")


class SimFS:
    def __init__(self):
        self.root = tempfile.mkdtemp(prefix="hgxsim-%d-" % os.getpid())
        self.plan = FaultPlan()
        self.fired = {}
        self.opens = 0
        self.bytes_written = 0
        self._installed = False

    def count(self, k):
        self.fired[k] = self.fired.get(k, 0) + 1

    def path(self, name):
        return os.path.join(self.root, name)

    def set_plan(self, plan=None):
        self.plan = plan or FaultPlan()

    # --- the seam
    def _open(self, file, mode="r", buffering=-1, encoding=None, errors=None, newline=None, closefd=True, opener=None):
        try:
            p = os.fspath(file) if not isinstance(file, int) else None
        except TypeError:
            p = None
        if p is None or not isinstance(p, str) or not os.path.abspath(p).startswith(self.root + os.sep):
            return _REAL_OPEN(file, mode, buffering, encoding, errors, newline, closefd, opener)
        self.opens += 1
        plan = self.plan
        if plan.kind == "open":
            plan.fired += 1
            self.count("open")
            raise OSError(plan.err or errno.EACCES, "simulated open failure", p)
        binary = "b" in mode
        base = mode.replace("b", "").replace("t", "")
        plus = "+" in base
        core = base.replace("+", "")
        rawmode = {"r": "rb", "w": "wb", "a": "ab", "x": "xb"}[core] + ("+" if plus else "")
        raw = SimRaw(self, p, rawmode)
        if binary and buffering == 0:
            return raw
        bufsize = plan.bufsize if buffering in (-1, 1) else buffering
        if plus:
            buf = io.BufferedRandom(raw, bufsize)
        elif core == "r":
            buf = io.BufferedReader(raw, bufsize)
        else:
            buf = io.BufferedWriter(raw, bufsize)
        if binary:
            return buf
        text = io.TextIOWrapper(buf, encoding or "utf-8", errors, newline, line_buffering=(buffering == 1))
        text.mode = mode
        return text

    def install(self):
        if not self._installed:
            builtins.open = self._open
            io.open = self._open
            self._installed = True

    def uninstall(self):
        if self._installed:
            builtins.open = _REAL_OPEN
            io.open = _REAL_OPEN
            self._installed = False

    def destroy(self):
        self.uninstall()
        shutil.rmtree(self.root, ignore_errors=True)

    # --- helpers that bypass the seam (the harness's own view of the durable bytes)
    def durable(self, name):
        try:
            with _REAL_OPEN(self.path(name), "rb") as f:
                return f.read()
        except FileNotFoundError:
            return None

    def put(self, name, data):
        with _REAL_OPEN(self.path(name), "wb") as f:
            f.write(data)

    def remove(self, name):
        try:
            os.remove(self.path(name))
        except FileNotFoundError:
            pass
