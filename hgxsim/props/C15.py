"""C15 - Hy-MMSBM: fit keeps fixed inputs, stays finite/symmetric, EM ascends (Engine R; partly claimed)."""
import itertools
import json
import math
import random

import numpy as np

from ..core import Violation, derive, digest, short, sut
from ..rngsim import DrawBudgetExceeded, Facade
from . import _gen

LEVEL = "exploration"
COMPONENTS = {
    "real": ["hypergraphx.communities.hy_mmsbm.model.HyMMSBM (fit, _w_update, _u_update, poisson_params, log_kappa, expected_degree, "
             "dimension_sequence, C)", "hy_mmsbm._linear_ops", "hypergraphx.linalg.binary_incidence_matrix", "numpy / scipy.sparse"],
    "stub": ["numpy.random.default_rng for callers inside hypergraphx (GenProxy: delegating Generator that logs every draw and may put "
             "entries of the random initialisation at the extremes of (0,1))"],
    "simulator_owned": ["the random initialisation of the free parameters", "n_iter as schedule: prefixes 1..K of one EM execution by prefix replay"],
}
ASSUMPTIONS = [
    "partly claimed: the closed forms (poisson_params, log_kappa, expected_degree, dimension_sequence, C) are pure algebra and are checked only as cross-invariants on the parameter states the trajectories visit",
    "likelihood ascent is asserted for w_prior = 0.0 only (MAP-EM with a positive prior ascends the posterior, not the likelihood); max_hye_size is passed explicitly there",
    "N <= 7 so that the exact likelihood is a brute-force sum over all C(N,2..D) hyperedges; memberships supplied for fit are strictly positive",
    "tolerances: 1e-9 relative on likelihood ascent and on closed forms",
]
RULE = ("one run = one hypergraph on N <= 7 nodes and one model configuration (K, assortative, which of u/w is supplied, priors, seed); fit() is "
        "executed for n_iter = 1..K under the same draw stream and fixed-parameter identity, finiteness, symmetry and (u supplied, w_prior=0) "
        "exact-likelihood ascent are checked on every prefix; closed forms are compared with brute-force sums on every state reached.  "
        "Non-trivial: >= 2 prefixes with a free parameter that changed; distinct = digests of the parameter trajectories.")
TIERS = {"quick": {"runs": 6000, "wall_cap": 240, "det_seeds": 8, "min_tests": 200},
         "thorough": {"runs": 30000, "wall_cap": 3000, "det_seeds": 30, "min_tests": 600}}


def _exec_huge(case):
    """Closed forms at another scale: thousands of nodes, pairwise interactions only (the sums over all possible
    hyperedges have a direct O(N K^2) expression there, evaluated with math.fsum)."""
    from hypergraphx.communities.hy_mmsbm.model import HyMMSBM
    from hypergraphx.linalg.linalg import hye_list_to_binary_incidence

    N, K = case["N"], case["K"]
    r = np.random.RandomState(case["seed"] % (2**32))
    u = r.random_sample((N, K)) + 0.05
    w = r.random_sample((K, K)) + 0.05
    w = (w + w.T) / 2
    stats = {"huge_closed_form_states": 1}
    try:
        try:
            m = HyMMSBM(u=u.copy(), w=w.copy(), max_hye_size=2)
            deg = np.asarray(m.expected_degree(per_node=True)).ravel()
            avg = float(m.expected_degree(per_node=False))
            dims = {int(k): float(v) for k, v in m.dimension_sequence(include_dyadic=True, expected=True).items()}
            pairs = [tuple(sorted(r.choice(N, 2, replace=False).tolist())) for _ in range(300)]
            pairs += [(0, N - 1), (N - 2, N - 1)] + ([(4095, 4096), (0, 4096)] if N > 4096 else [])
            lam = np.asarray(m.poisson_params(hye_list_to_binary_incidence(pairs, shape=(N, len(pairs))))).ravel()
        except Exception as e:  # noqa
            raise Violation("C15/closed-form/raised", {"where": f"N={N}", "exception": repr(e)})
        # the normalisation for sizes in the middle of the range (binomial coefficients far beyond float64)
        try:
            mk = HyMMSBM(u=u.copy(), w=w.copy(), max_hye_size=N)
            for d in (2, 3, N // 4, N // 2, N - 1, N):
                lk = float(mk.log_kappa(d))
                want = (math.lgamma(N - 1) - math.lgamma(d - 1) - math.lgamma(N - d + 1)) + math.log(d * (d - 1) / 2)
                if not math.isfinite(lk) or abs(lk - want) > 1e-8 * max(1.0, abs(want)):
                    raise Violation("C15/closed-form/log_kappa", {"where": f"N={N}", "d": d, "library": lk, "definition": want})
            ds = np.array([2, N // 3, N // 2])
            got = np.asarray(mk.log_kappa(ds), dtype=float)
            wantv = np.array([(math.lgamma(N - 1) - math.lgamma(int(d) - 1) - math.lgamma(N - int(d) + 1)) + math.log(int(d) * (int(d) - 1) / 2) for d in ds])
            if got.shape != wantv.shape or not np.all(np.isfinite(got)) or not np.allclose(got, wantv, rtol=1e-8, atol=1e-8):
                raise Violation("C15/closed-form/log_kappa[array]", {"where": f"N={N}", "sizes": ds.tolist(), "library": short(got.tolist()), "definition": short(wantv.tolist())})
        except Violation:
            raise
        except Exception as e:  # noqa
            raise Violation("C15/closed-form/raised", {"where": f"N={N} log_kappa", "exception": repr(e)})
        S = u.sum(axis=0)
        uw = u @ w
        want_deg = np.array([float(uw[i] @ (S - u[i])) for i in range(N)])  # kappa_2 = 1
        if deg.shape != want_deg.shape or not np.allclose(deg, want_deg, rtol=1e-9, atol=0):
            bad = int(np.argmax(np.abs(deg - want_deg))) if deg.shape == want_deg.shape else -1
            raise Violation("C15/closed-form/expected_degree[per_node]", {"where": f"N={N}", "node": bad,
                                                                          "library": float(deg[bad]) if bad >= 0 else None,
                                                                          "definition": float(want_deg[bad]) if bad >= 0 else None})
        if abs(avg - float(want_deg.mean())) > 1e-9 * abs(want_deg.mean()):
            raise Violation("C15/closed-form/expected_degree[average]", {"where": f"N={N}", "library": avg, "definition": float(want_deg.mean())})
        total = math.fsum(want_deg.tolist()) / 2
        if set(dims) != {2} or abs(dims[2] - total) > 1e-9 * total:
            raise Violation("C15/closed-form/dimension_sequence", {"where": f"N={N}", "library": short(dims), "definition": {2: total}})
        want_lam = np.array([float(u[i] @ w @ u[j]) for i, j in pairs])
        if not np.allclose(lam, want_lam, rtol=1e-9, atol=0):
            raise Violation("C15/closed-form/poisson_params", {"where": f"N={N}", "library": short(lam.tolist()), "definition": short(want_lam.tolist())})
    except Violation as v:
        return {"violation": {"sig": v.sig, "detail": v.detail}, "digest": "violation:" + v.sig, "stats": {}, "sample": {"case": case}}
    return {"violation": None, "digest": digest([N, K, float(avg)]), "stats": {"c15": stats}, "nontrivial": False,
            "sample": {"case": case}}


def generate(seed, tier):
    rng = random.Random(seed)
    if rng.random() < 0.004:
        return {"seed": seed, "huge": True, "N": rng.choice([1100, 2500, 4097, 5000, 6000, 8200]), "K": rng.randint(1, 3), "q": 0.0}
    N = rng.randint(4, 7)
    K = rng.randint(1, 3)
    D = rng.randint(2, min(N, 4))
    spec = _gen.rand_hypergraph_spec(rng, nmin=N, nmax=N, emin=2, emax=9, smin=2, smax=D, labels="int")
    weighted = rng.random() < 0.5
    weights = [rng.randint(1, 4) if rng.random() < 0.93 else 0 for _ in spec["edges"]]  # a weight may be 0
    if not any(weights):
        weights[0] = 2
    assortative = rng.random() < 0.5
    supply = rng.choice(["u", "u", "w", "none", "both"])
    u = [[round(0.05 + rng.random(), 3) for _ in range(K)] for _ in range(N)]
    w = [[0.0] * K for _ in range(K)]
    for a in range(K):
        for b in range(a, K):
            if a == b or not assortative:
                w[a][b] = w[b][a] = round(0.05 + rng.random(), 3)
    prior_arrays = None
    if rng.random() < 0.2:
        # entry-wise prior rates: a symmetric (K, K) array for w, an (N, K) array for u
        wp = [[0.0] * K for _ in range(K)]
        for a in range(K):
            for b in range(a, K):
                wp[a][b] = wp[b][a] = round(0.5 + 1.5 * rng.random(), 3)
        prior_arrays = {"w": wp, "u": [[round(0.5 + 1.5 * rng.random(), 3) for _ in range(K)] for _ in range(N)] if rng.random() < 0.5 else None}
    if rng.random() < 0.1 and K >= 2:
        # hard, sparse memberships: every node belongs to one community only (the others exactly 0) and the last
        # community has exactly ONE member
        lone = rng.randrange(N)
        for i, row in enumerate(u):
            keep = K - 1 if i == lone else rng.randrange(K - 1)
            for k in range(K):
                if k != keep:
                    row[k] = 0.0
        supply = rng.choice(["u", "both"])
    if rng.random() < 0.12:
        # a valid but badly scaled parametrisation: one community's memberships are tiny but strictly positive
        k = rng.randrange(K)
        for row in u:
            row[k] = row[k] * 1e-13
        supply = "both"
    return {"seed": seed, "q": rng.choice([0.0, 0.2]), "N": N, "K": K, "D": D, "spec": spec, "weighted": weighted,
            "weights": weights, "assortative": assortative, "supply": supply, "u": u, "w": w,
            "w_prior": rng.choice([0.0, 0.0, 1.0, 0.5]), "u_prior": rng.choice([0.0, 0.0, 1.0]), "prior_arrays": prior_arrays,
            "explicit_D": rng.random() < 0.7, "sut_seed": rng.randint(0, 10**6),
            "tolerance": rng.choice([None, None, 1e-3, 0.1, 1.0]), "check_every": rng.choice([1, 2, 3, 10]),
            "n_iter": rng.randint(2, 12 if tier == "quick" else 40),
            "rewire_at": rng.choice([None, None, 1, 2, 3]), "rewire_seed": rng.randint(0, 10**6),
            "w_scale": rng.choice([None] * 5 + [1e-9, 1e-6, 1e4]),
            "hard_u": rng.choice([None] * 6 + ["int", "counts", "float32"]),
            "neighbours": rng.sample(["opposite", "bare", "rejected"], rng.randint(1, 3)) if rng.random() < 0.3 else None}


# ------------------------------------------------------------------ brute force
def _kappa(N, d):
    return math.comb(N - 2, d - 2) * d * (d - 1) / 2


def _lam(u, w, e):
    s = 0.0
    for i, j in itertools.combinations(e, 2):
        s += float(u[i] @ w @ u[j])
    return s


def _all_edges(N, D):
    for d in range(2, D + 1):
        for e in itertools.combinations(range(N), d):
            yield e


def exact_loglik(u, w, N, D, data):
    """Poisson log-likelihood (up to the constant -log A_e!) from its definition."""
    tot = 0.0
    for e in _all_edges(N, D):
        tot -= _lam(u, w, e) / _kappa(N, len(e))
    for e, a in data:
        if a == 0:
            continue  # a hyperedge of weight 0 is "not observed": its term a * log(lambda) is 0 whatever lambda is
        lam = _lam(u, w, e)
        if lam <= 0:
            return -math.inf  # an observed hyperedge is impossible under (u, w)
        tot += a * (math.log(lam) - math.log(_kappa(N, len(e))))
    return tot


class _Tol:
    """np.allclose with an absolute tolerance that follows the magnitude of the definition (1e-12 at magnitude >= 1)."""

    # magnitude of the largest term the closed forms add up: max(u)^2 * max(w) (set per call of _check_closed_forms).
    # The library evaluates sums over pairs as differences of squares, so its rounding error is relative to the LARGEST
    # term, not to the result (1e-27 next to 0.3 is lost: "equal up to rounding" cannot mean more than that)
    floor = 0.0

    @classmethod
    def close(cls, got, want, mult=1.0):
        want = np.asarray(want, dtype=float)
        mx = float(np.max(np.abs(want))) if want.size else 0.0
        # absolute part: 1e-12 of the result's own magnitude (at most 1), or of the largest term when that is bigger -
        # a sum evaluated as a difference of squares cannot be more exact than the rounding of its largest term
        scale = max(min(1.0, mx), cls.floor * mult)
        return np.allclose(got, want, rtol=1e-9, atol=1e-12 * (scale if scale > 0 else 1.0))


def _check_closed_forms(model, u, w, N, D, stats, where):
    from hypergraphx.linalg.linalg import hye_list_to_binary_incidence

    edges = list(_all_edges(N, D))
    inc = hye_list_to_binary_incidence(edges, shape=(N, len(edges)))
    _Tol.floor = float(np.max(np.abs(u)) ** 2 * np.max(np.abs(w))) * D * (D - 1) / 2 if u.size and w.size else 0.0
    try:
        lam = np.asarray(model.poisson_params(inc)).ravel()
        ref = np.array([_lam(u, w, e) for e in edges])
        if not _Tol.close(lam, ref):
            raise Violation("C15/closed-form/poisson_params", {"where": where, "library": short(lam.tolist()), "definition": short(ref.tolist())})
        for d in range(2, D + 1):
            lk = float(model.log_kappa(d))
            if abs(lk - math.log(_kappa(N, d))) > 1e-9 * max(1, abs(lk)):
                raise Violation("C15/closed-form/log_kappa", {"d": d, "library": lk, "definition": math.log(_kappa(N, d))})
        for lo in (2, 3):
            if lo <= D:
                ds = np.arange(lo, D + 1)
                got = np.asarray(model.log_kappa(ds), dtype=float)
                want = np.array([math.log(_kappa(N, int(d))) for d in ds])
                if got.shape != want.shape or not np.allclose(got, want, rtol=1e-9, atol=1e-12):
                    raise Violation("C15/closed-form/log_kappa[array]", {"sizes": ds.tolist(), "library": short(got.tolist()), "definition": short(want.tolist())})
        mean = np.array([ref[i] / _kappa(N, len(e)) for i, e in enumerate(edges)])
        deg = np.zeros(N)
        for m, e in zip(mean, edges):
            for i in e:
                deg[i] += m
        got = np.asarray(model.expected_degree(per_node=True)).ravel()
        if not _Tol.close(got, deg, N):
            raise Violation("C15/closed-form/expected_degree[per_node]", {"where": where, "library": short(got.tolist()), "definition": short(deg.tolist())})
        got = float(model.expected_degree(per_node=False))
        if not _Tol.close(got, deg.mean(), N):
            raise Violation("C15/closed-form/expected_degree[average]", {"where": where, "library": got, "definition": float(deg.mean())})
        # the same for size selections that do not start at 2
        sels = [np.arange(3, D + 1)] if D >= 3 else []
        sels += [int(d) for d in range(2, D + 1)]
        if D >= 4:
            sels.append(np.array([2, D]))
        for sel in sels:
            sizes = {int(sel)} if isinstance(sel, int) else {int(x) for x in sel}
            degs = np.zeros(N)
            for m, e in zip(mean, edges):
                if len(e) in sizes:
                    for i in e:
                        degs[i] += m
            got = np.asarray(model.expected_degree(per_node=True, d=sel)).ravel()
            if not _Tol.close(got, degs, N):
                raise Violation("C15/closed-form/expected_degree[per_node,d]", {"where": where, "d": short(sel), "library": short(got.tolist()), "definition": short(degs.tolist())})
            got = float(model.expected_degree(per_node=False, d=sel))
            if not _Tol.close(got, degs.mean(), N):
                raise Violation("C15/closed-form/expected_degree[average,d]", {"where": where, "d": short(sel), "library": got, "definition": float(degs.mean())})
        if D >= 3:
            degs = np.zeros(N)
            for m, e in zip(mean, edges):
                if len(e) >= 3:
                    for i in e:
                        degs[i] += m
            got = np.asarray(model.degree_sequence(include_dyadic=False, expected=True)).ravel()
            if not _Tol.close(got, degs, N):
                raise Violation("C15/closed-form/degree_sequence[expected,no-dyadic]", {"where": where, "library": short(got.tolist()), "definition": short(degs.tolist())})
            dims3 = model.dimension_sequence(include_dyadic=False, expected=True)
            want3 = {}
            for m, e in zip(mean, edges):
                if len(e) >= 3:
                    want3[len(e)] = want3.get(len(e), 0.0) + m
            want3 = {d: v for d, v in want3.items() if v > 0}
            got3 = {int(k): float(v) for k, v in dims3.items()}
            if any(not _Tol.close(got3.get(d, 0.0), want3.get(d, 0.0), N * N) for d in set(got3) | set(want3)):
                raise Violation("C15/closed-form/dimension_sequence[no-dyadic]", {"where": where, "library": short({int(k): float(v) for k, v in dims3.items()}), "definition": short(want3)})
        dims = model.dimension_sequence(include_dyadic=True, expected=True)
        want = {}
        for m, e in zip(mean, edges):
            want[len(e)] = want.get(len(e), 0.0) + m
        want = {d: v for d, v in want.items() if v > 0}
        gotd = {int(k): float(v) for k, v in dims.items()}
        if any(not _Tol.close(gotd.get(d, 0.0), want.get(d, 0.0), N * N) for d in set(gotd) | set(want)):
            raise Violation("C15/closed-form/dimension_sequence", {"where": where, "library": short({int(k): float(v) for k, v in dims.items()}), "definition": short(want)})
        c = float(model.C())
        if abs(c - sum(2 / (d * (d - 1)) for d in range(2, D + 1))) > 1e-12:
            raise Violation("C15/closed-form/C", {"library": c})
    except Violation:
        raise
    except Exception as e:  # noqa
        raise Violation("C15/closed-form/raised", {"where": where, "exception": repr(e)})
    stats["closed_form_states"] = stats.get("closed_form_states", 0) + 1


def _rewired_edges(case):
    """Same number of hyperedges, same sizes, other node sets (keeps every node count and the maximum size)."""
    r = random.Random(case.get("rewire_seed", 0))
    N = case["N"]
    old = [list(e) for e in case["spec"]["edges"]]
    seen = {frozenset(e) for e in old}
    new = []
    for e in old:
        cand = e
        if r.random() < 0.6:
            for _ in range(20):
                c = r.sample(range(N), len(e))
                if frozenset(c) not in seen:
                    cand = c
                    break
        seen.add(frozenset(cand))
        new.append(cand)
    return new


def _fit(case, n_iter, h=None):
    from hypergraphx.communities.hy_mmsbm.model import HyMMSBM

    N, K, D = case["N"], case["K"], case["D"]
    if h is None:
        h = _gen.build_hypergraph(case["spec"], weights=case["weights"], weighted=case["weighted"])
    u0 = np.array(case["u"], dtype=float) if case["supply"] in ("u", "both") else None
    w0 = np.array(case["w"], dtype=float) if case["supply"] in ("w", "both") else None
    u_in = None if u0 is None else u0.copy()
    w_in = None if w0 is None else w0.copy()
    fac = Facade(case["seed"], q=case["q"])
    w_prior, u_prior = case["w_prior"], case["u_prior"]
    if case.get("prior_arrays"):
        w_prior = np.array(case["prior_arrays"]["w"], dtype=float)
        if case["prior_arrays"].get("u") is not None:
            u_prior = np.array(case["prior_arrays"]["u"], dtype=float)
    with fac:
        model = HyMMSBM(K=K, u=u_in, w=w_in, assortative=case["assortative"],
                        max_hye_size=D if case["explicit_D"] else None,
                        u_prior=u_prior, w_prior=w_prior, seed=case["sut_seed"])
        for kind in case.get("neighbours") or ():
            # other models are constructed in the same process between this model's construction and its fit
            # (one with the opposite pattern of supplied parameters, one rejected by the constructor)
            try:
                if kind == "opposite":
                    HyMMSBM(K=K + 1, u=None if u_in is not None else np.full((N, K + 1), 0.5),
                            w=None if w_in is not None else np.eye(K + 1), assortative=not case["assortative"],
                            seed=case["sut_seed"])
                elif kind == "bare":
                    HyMMSBM(K=K + 1, assortative=True, seed=case["sut_seed"])
                else:
                    HyMMSBM(K=K + 2, u=np.full((N, K), 0.5), seed=case["sut_seed"])  # K contradicts u: rejected
            except Exception:  # noqa
                pass
        if case.get("tolerance") is not None:
            model.fit(h, n_iter=n_iter, tolerance=case["tolerance"], check_convergence_every=case.get("check_every", 10))
        else:
            model.fit(h, n_iter=n_iter)
    return model, u0, w0, u_in, w_in, fac, h


def execute(case):
    sut()
    if case.get("huge"):
        return _exec_huge(case)
    stats = {"prefixes": 0, "ascent_checks": 0, "free_param_changed": 0}
    N, K = case["N"], case["K"]
    traj = []
    try:
        data = [(tuple(sorted(e)), (wt if case["weighted"] else 1)) for e, wt in zip(case["spec"]["edges"], case["weights"])]
        dmax = max(len(e) for e, _ in data)
        prevL = None
        prev_params = None
        fstats = {}
        head = []
        # one Hypergraph object serves every prefix; at `rewire_at` it is rewired in place (same counts, same sizes)
        h_shared = _gen.build_hypergraph(case["spec"], weights=case["weights"], weighted=case["weighted"])
        for it in range(1, case["n_iter"] + 1):
            if case.get("rewire_at") == it:
                new_edges = _rewired_edges(case)
                for e in list(h_shared.get_edges()):
                    h_shared.remove_edge(e)
                for e, wt in zip(new_edges, case["weights"]):
                    if case["weighted"]:
                        h_shared.add_edge(tuple(e), weight=wt)
                    else:
                        h_shared.add_edge(tuple(e))
                data = [(tuple(sorted(e)), (wt if case["weighted"] else 1)) for e, wt in zip(new_edges, case["weights"])]
                prevL = None
                prev_params = None
                stats["rewired_objects"] = stats.get("rewired_objects", 0) + 1
            ctx = {"n_iter": it, "supply": case["supply"], "assortative": case["assortative"], "w_prior": case["w_prior"],
                   "u_prior": case["u_prior"], "explicit_D": case["explicit_D"], "tolerance": case.get("tolerance"),
                   "check_every": case.get("check_every")}
            if getattr(model if it > 1 else None, "tolerance_reached", False):
                stats["stopped_by_tolerance"] = stats.get("stopped_by_tolerance", 0) + 1
            try:
                model, u0, w0, u_in, w_in, fac, h = _fit(case, it, h_shared)
            except DrawBudgetExceeded as e:
                raise Violation("C15/fit/liveness-draw-budget", {"why": str(e), **ctx})
            except Exception as e:  # noqa
                raise Violation("C15/fit/raised", {"exception": repr(e), **ctx})
            u, w = np.asarray(model.u, dtype=float), np.asarray(model.w, dtype=float)
            if u0 is not None and (not np.array_equal(u, u0) or not np.array_equal(u_in, u0)):
                raise Violation("C15/fit/supplied-u-changed", {"max_abs_diff": float(np.max(np.abs(u - u0))), **ctx})
            if w0 is not None and (not np.array_equal(w, w0) or not np.array_equal(w_in, w0)):
                raise Violation("C15/fit/supplied-w-changed", {"max_abs_diff": float(np.max(np.abs(w - w0))), **ctx})
            if u.shape != (N, K) or w.shape != (K, K):
                raise Violation("C15/fit/shape", {"u": u.shape, "w": w.shape, **ctx})
            if not (np.all(np.isfinite(u)) and np.all(np.isfinite(w))):
                raise Violation("C15/fit/not-finite", {"u": short(u.tolist()), "w": short(w.tolist()), **ctx})
            if u.min() < -1e-12 or w.min() < -1e-12:
                raise Violation("C15/fit/negative", {"min_u": float(u.min()), "min_w": float(w.min()), **ctx})
            if not np.allclose(w, w.T, rtol=1e-9, atol=1e-15):
                raise Violation("C15/fit/w-not-symmetric", {"w": short(w.tolist()), **ctx})
            if case["assortative"] and np.any(np.triu(w, 1) != 0):
                raise Violation("C15/fit/w-not-diagonal", {"w": short(w.tolist()), **ctx})
            D = model.max_hye_size
            if not case["explicit_D"] and D != dmax:
                raise Violation("C15/fit/max-size-inferred", {"inferred": D, "largest_hyperedge_in_data": dmax, **ctx})
            stats["prefixes"] += 1
            params = digest([u.tolist(), w.tolist()])
            if prev_params is not None and params != prev_params:
                stats["free_param_changed"] += 1
            prev_params = params
            traj.append(params)
            if case["supply"] == "u" and case["w_prior"] == 0.0 and not case.get("prior_arrays"):
                L = exact_loglik(u, w, N, D, data)
                if prevL is not None and L < prevL - 1e-9 * max(1.0, abs(prevL)):
                    raise Violation("C15/fit/likelihood-decreased", {"previous": prevL, "now": L, **ctx})
                prevL = L
                stats["ascent_checks"] += 1
            if it in (1, case["n_iter"]) and D is not None and D >= 2 and D <= N:
                _check_closed_forms(model, u, w, N, D, stats, f"after fit n_iter={it}")
            fstats = fac.stats()
            head = fac.head
        # closed forms at the supplied (not fitted) parameters as well
        from hypergraphx.communities.hy_mmsbm.model import HyMMSBM

        m0 = HyMMSBM(u=np.array(case["u"], dtype=float), w=np.array(case["w"], dtype=float), max_hye_size=case["D"])
        _check_closed_forms(m0, np.array(case["u"]), np.array(case["w"]), N, case["D"], stats, "supplied parameters")
        if case.get("w_scale"):
            # the same parameters at another magnitude (affinities around 1e-9 ... 1e4): closed forms are scale-free
            ws = np.array(case["w"], dtype=float) * case["w_scale"]
            ms = HyMMSBM(u=np.array(case["u"], dtype=float), w=ws, max_hye_size=case["D"])
            _check_closed_forms(ms, np.array(case["u"]), ws, N, case["D"], stats, f"supplied parameters, w scaled by {case['w_scale']}")
            stats["scaled_parameter_states"] = stats.get("scaled_parameter_states", 0) + 1
        if case.get("hard_u"):
            # hard memberships the way users write them: a one-hot (or 0/1/2 count) matrix of INTEGER dtype (or float32)
            lab = random.Random(case["seed"] ^ 0x5A5A).choices(range(K), k=N)
            ui = np.eye(K, dtype=int)[lab] if case["hard_u"] != "counts" else np.eye(K, dtype=int)[lab] + np.eye(K, dtype=int)[lab[::-1]]
            if case["hard_u"] == "float32":
                ui = ui.astype(np.float32)
            wf = np.array(case["w"], dtype=float)
            mh = HyMMSBM(u=ui.copy(), w=wf, max_hye_size=case["D"])
            _check_closed_forms(mh, ui.astype(float), wf, N, case["D"], stats, f"hard memberships of dtype {ui.dtype}")
            stats["hard_membership_states"] = stats.get("hard_membership_states", 0) + 1
    except Violation as v:
        return {"violation": {"sig": v.sig, "detail": v.detail}, "digest": "violation:" + v.sig, "stats": {},
                "sample": {"case": case}}
    return {"violation": None, "digest": digest(traj),
            "stats": {"c15": stats, "faults": fstats.get("overrides", {}), "draws": fstats.get("draws", {})},
            "nontrivial": stats["free_param_changed"] >= 2,
            "sample": {"case": {k: v for k, v in case.items() if k not in ("u", "w")}, "draw_trace_head": [short(x, 120) for x in head[:4]]}}


def simplify(case):
    if case.get("huge"):
        return
    c = json.loads(json.dumps(case))
    if case.get("q", 0) > 0:
        c2 = dict(c)
        c2["q"] = 0.0
        yield c2
    if case["n_iter"] > 2:
        c2 = dict(c)
        c2["n_iter"] = case["n_iter"] - 1
        yield c2
    for i in range(len(case["spec"]["edges"])):
        if len(case["spec"]["edges"]) > 2:
            c2 = json.loads(json.dumps(c))
            del c2["spec"]["edges"][i]
            del c2["weights"][i]
            yield c2


def sim_time(stats):
    return {"unit": "EM prefixes executed (fit calls with n_iter = 1..K)", "value": stats.get("c15", {}).get("prefixes", 0)}
