"""Shared body of the four refinement properties C01-C04 (Engine H)."""
import random

from .. import hist
from ..core import Ambiguous, Violation

LEVEL = "exploration"
COMPONENTS = {
    "real": ["hypergraphx containers (all public mutators and queries)", "hypergraphx.measures.degree",
             "hypergraphx.measures.directed.degree", "hypergraphx.filters.metadata_filters"],
    "stub": [],
    "simulator_owned": ["the single caller: operation order over up to 4 live objects (forks by copy())",
                        "rejected operations (fault kind of this engine)"],
}
ASSUMPTIONS = [
    "reference semantics of DESIGN.md Appendix A; steps whose outcome neither the property nor the docstring fixes are never generated (section 4.5)",
    "bounds: universe <= 7 labels, hyperedge size <= 5, history <= 60 (quick) / 150 (thorough) operations, filters 1..6",
    "seeded sampling of histories; a clean batch is evidence, not proof",
    "no concurrent callers and no asynchronous exceptions are simulated (no property promises anything about them)",
]


def make(pid, kind, extra_ops=(), extra_propose=None, handlers=None, runs_quick=6000, runs_thorough=150000):
    ns = {}

    def generate(seed, tier):
        rng = random.Random(seed)
        cfg = hist.gen_config(rng, kind, tier, extra_ops=extra_ops, extra_weight=3.0)
        ops, gstats = hist.generate_history(rng, cfg, extra_propose=extra_propose)
        return {"kind": kind, "weighted": cfg["weighted"], "universe": cfg["universe"],
                "cfg": {k: cfg[k] for k in ("labels", "wtype", "max_size", "md_density", "reject_rate", "profile", "length")},
                "ambiguous_skipped": gstats["ambiguous_skipped"], "ops": ops}

    def execute(case):
        try:
            res, w = hist.run_world(pid, case, mode="refine", handlers=handlers)
        except Violation as v:
            return {"violation": {"sig": v.sig, "detail": v.detail}, "digest": "violation:" + v.sig,
                    "stats": {}, "sample": hist.sample_of(case)}
        res["stats"]["ambiguous_skipped"] = case.get("ambiguous_skipped", 0)
        res["sample"] = hist.sample_of(case)
        return res

    def simplify(case):
        return hist.simplify_ops(case)

    ns.update(
        generate=generate, execute=execute, simplify=simplify, LEVEL=LEVEL, COMPONENTS=COMPONENTS,
        ASSUMPTIONS=ASSUMPTIONS,
        RULE=("one run = one seeded history of public mutating calls (valid and to-be-rejected) over up to 4 live "
              "objects, generated from the reference model only; after every operation every live object's full "
              "public observation is compared with its model.  A run is non-trivial when it executed >= 3 "
              "state-changing operations and >= 1 rejected operation or fork; distinct = distinct event-log digests."),
        TIERS={"quick": {"runs": runs_quick, "wall_cap": 240, "det_seeds": 16, "min_tests": 600},
               "thorough": {"runs": runs_thorough, "wall_cap": 3000, "det_seeds": 40, "min_tests": 1500}},
    )
    return ns
