"""C18 - random walks and simplicial contagion (Engine R; partly claimed)."""
import json
import random

import numpy as np

from ..core import Violation, derive, digest, short, sut, tag
from ..rngsim import DrawBudgetExceeded, Facade
from . import _gen

LEVEL = "exploration"
COMPONENTS = {
    "real": ["hypergraphx.dynamics.contagion.simplicial_contagion", "hypergraphx.dynamics.randwalk (transition_matrix, random_walk, "
             "random_walk_density, RW_stationary_state)", "Hypergraph", "numpy / scipy.sparse"],
    "stub": ["numpy.random.random / numpy.random.choice front-ends (Facade)"],
    "simulator_owned": ["every draw of the contagion (infection / recovery coins) and of the walk (next node)", "discrete time steps 1..T",
                        "draws pinned to 0.0 / just below 1 (every threshold crossed / not crossed)"],
}
ASSUMPTIONS = [
    "partly claimed: the matrix identities (row-stochasticity, (size-1) weighting, stationarity) are pure algebra and are checked only on the inputs the walk simulation samples",
    "walk inputs: connected hypergraphs labelled 0..N-1 with sizes 2..5, N <= 8; contagion inputs: any comparable labels, sizes 1..4",
    "exact trajectories are asserted in the regimes where they are determined: rates in {0,1}, or arbitrary rates with all draws pinned to 0.0 / 0.9999999",
]
RULE = ("one run = one hypergraph + one dynamics call family (contagion: several rate triples incl. the eight 0/1 regimes, fair, adversarial and "
        "pinned draws; walk: sampled walk + density evolution + matrix identities).  Non-trivial: >= 1 infection/recovery event or >= 3 walk "
        "steps and >= 1 adversarial or pinned draw; distinct = draw-trace digests.")
TIERS = {"quick": {"runs": 20000, "wall_cap": 240, "det_seeds": 12, "min_tests": 300},
         "thorough": {"runs": 80000, "wall_cap": 3000, "det_seeds": 40, "min_tests": 1000}}


def _connected_spec(rng):
    if rng.random() < 0.02:
        # dense: two nodes share 64-100 hyperedges of five nodes (pair weights of 256 and more)
        import itertools

        n = rng.randint(11, 13)
        a, b = rng.sample(range(n), 2)
        rest = [x for x in range(n) if x not in (a, b)]
        triples = list(itertools.combinations(rest, 3))
        rng.shuffle(triples)
        edges = [[a, b] + list(t) for t in triples[: rng.randint(64, min(100, len(triples)))]]
        edges += [[rest[i], rest[i + 1]] for i in range(len(rest) - 1)][: rng.randint(0, 3)]
        return {"nodes": list(range(n)), "edges": edges, "labels": "int"}
    n = rng.randint(2, 8) if rng.random() < 0.8 else rng.randint(11, 16)
    nodes = list(range(n))
    edges, seen = [], set()
    order = nodes[:]
    rng.shuffle(order)
    # a random spanning structure first, then extras
    for i in range(1, n):
        k = rng.randint(2, min(5, n))
        others = rng.sample(order[:i], min(i, rng.randint(1, k - 1)))
        e = [order[i]] + others
        extra = [x for x in nodes if x not in e]
        rng.shuffle(extra)
        e += extra[: max(0, k - len(e))] if rng.random() < 0.3 else []
        if frozenset(e) not in seen and len(e) >= 2:
            seen.add(frozenset(e))
            edges.append(e)
    for _ in range(rng.randint(0, 4)):
        k = rng.randint(2, min(5, n))
        e = rng.sample(nodes, k)
        if frozenset(e) not in seen:
            seen.add(frozenset(e))
            edges.append(e)
    reg = nodes[:]
    rng.shuffle(reg)  # labels are 0..N-1, but they are registered in another order
    return {"nodes": reg, "edges": edges, "labels": "int"}


def _connected(n, edges):
    parent = list(range(n))

    def find(x):
        while parent[x] != x:
            parent[x] = parent[parent[x]]
            x = parent[x]
        return x

    for e in edges:
        for v in e[1:]:
            parent[find(v)] = find(e[0])
    return len({find(i) for i in range(n)}) == 1 and all(any(i in e for e in edges) for i in range(n))


def generate(seed, tier):
    rng = random.Random(seed)
    if rng.random() < 0.4:
        spec = _connected_spec(rng)
        n = len(spec["nodes"])
        dens = [rng.random() for _ in range(n)]
        if rng.random() < 0.3:
            # a one-hot start; half of the time spelled with integers (np.array([0, 1, 0]))
            one = 1 if rng.random() < 0.5 else 1.0
            dens = [type(one)(0)] * n
            dens[rng.randrange(n)] = one
        # history on the walked object: rewire (same node and hyperedge counts, still connected) and query again
        rewires = []
        cur = [list(e) for e in spec["edges"]]
        for _ in range(rng.randint(0, 3)):
            for _try in range(20):
                i = rng.randrange(len(cur))
                k = len(cur[i])
                new = rng.sample(spec["nodes"], k)
                cand = cur[:i] + cur[i + 1:] + [new]
                if len({frozenset(e) for e in cand}) == len(cand) and _connected(n, cand):
                    rewires.append([cur[i], new])
                    cur = cand
                    break
        return {"family": "walk", "seed": seed, "q": rng.choice([0.0, 0.1, 0.4]), "spec": spec, "rewires": rewires,
                "start": rng.randrange(n), "time": rng.randint(0, 30 if tier == "quick" else 200), "density": dens,
                # a weighted container in a third of the runs: the walk is defined by sizes only, weights must not enter
                "weights": [rng.choice([1, 2, 3, 5, 0.5]) for _ in range(len(spec["edges"]) + len(rewires))] if rng.random() < 0.33 else None}
    if rng.random() < 0.1:
        spec = _gen.rand_hypergraph_spec(rng, nmin=12, nmax=20, emin=8, emax=24, smin=2, smax=4, singletons=0.05)
        T = rng.randint(1, 40)
    else:
        spec = _gen.rand_hypergraph_spec(rng, nmin=3, nmax=8, emin=1, emax=9, smin=2, smax=4, singletons=0.1)
        T = rng.randint(1, 12)
    triples = []
    for _ in range(rng.randint(1, 4)):
        x = rng.random()
        if x < 0.5:
            triples.append([rng.choice([0, 1]), rng.choice([0, 1]), rng.choice([0, 1])])
        else:
            triples.append([rng.choice([0, 0.3, 0.7, 1]), rng.choice([0, 0.5, 1]), rng.choice([0, 0.2, 0.6, 1])])
    init = [n for n in spec["nodes"] if rng.random() < rng.choice([0.2, 0.5])]
    return {"family": "contagion", "seed": seed, "q": rng.choice([0.0, 0.1, 0.4]), "spec": spec, "T": T, "triples": triples,
            "infected": init, "pin": rng.choice([None, None, "lo", "hi"]),
            "weights": [rng.choice([1, 2, 3, 5, 0.5]) for _ in spec["edges"]] if rng.random() < 0.25 else None}


def _reference(spec, infected, T, b, bD, mu):
    """Synchronous reference of the deterministic regimes (rates are 0/1 here)."""
    nodes = spec["nodes"]
    N = len(nodes)
    pair_nbr = {n: set() for n in nodes}
    tri = {n: [] for n in nodes}
    for e in spec["edges"]:
        if len(e) == 2:
            pair_nbr[e[0]].add(e[1])
            pair_nbr[e[1]].add(e[0])
        if len(e) == 3:
            for n in e:
                tri[n].append([x for x in e if x != n])
    I = {n: (1 if n in infected else 0) for n in nodes}
    out = [0.0] * T
    out[0] = sum(I.values()) / N
    t = 1
    while sum(I.values()) > 0 and t < T:
        new = dict(I)
        for n in nodes:
            if I[n] == 0:
                if b == 1 and any(I[m] == 1 for m in pair_nbr[n]):
                    new[n] = 1
                elif bD == 1 and any(I[x] == 1 and I[y] == 1 for x, y in tri[n]):
                    new[n] = 1
            elif mu == 1:
                new[n] = 0
        I = new
        out[t] = sum(I.values()) / N
        t += 1
    return out


def _exec_contagion(case, stats, traces):
    from hypergraphx.dynamics.contagion import simplicial_contagion

    spec = case["spec"]
    nodes = spec["nodes"]
    N = len(nodes)
    head = []
    for idx, (b, bD, mu) in enumerate(case["triples"]):
        h = _gen.build_hypergraph(spec, weights=case.get("weights"), weighted=bool(case.get("weights")))
        if case["seed"] % 4 == 0 and len(spec["edges"]) >= 1:
            # somebody else works on a COPY of the input (removes a hyperedge, adds one): the original is what is simulated
            c = h.copy()
            c.remove_edge(tuple(spec["edges"][0]))
            extra = [x for x in spec["nodes"]][:3]
            if len(extra) >= 2 and all(set(extra) != set(e) for e in spec["edges"][1:]):
                c.add_edge(tuple(extra), **({"weight": 2} if case.get("weights") else {}))
            stats["copies_edited_before_run"] = stats.get("copies_edited_before_run", 0) + 1
        I0 = {n: (1 if n in case["infected"] else 0) for n in nodes}
        I0_copy = dict(I0)
        fac = Facade(derive(case["seed"], "triple", idx), q=case["q"], stretch=case["pin"])
        ctx = {"rates": [b, bD, mu], "T": case["T"], "infected": short(case["infected"]), "edges": short(spec["edges"], 300),
               "pin": case["pin"]}
        try:
            with fac:
                res = simplicial_contagion(h, I0, case["T"], b, bD, mu)
        except DrawBudgetExceeded as e:
            raise Violation("C18/contagion/liveness-draw-budget", {"why": str(e), **ctx})
        except Exception as e:  # noqa
            raise Violation("C18/contagion/raised", {"exception": repr(e), **ctx})
        res = [float(x) for x in res]
        ctx["result"] = res
        if I0 != I0_copy:
            raise Violation("C18/contagion/initial-condition-modified", ctx)
        if len(res) != case["T"]:
            raise Violation("C18/contagion/length", ctx)
        if any(not (0.0 <= x <= 1.0) or x != x for x in res):
            raise Violation("C18/contagion/out-of-range", ctx)
        if abs(res[0] - len(case["infected"]) / N) > 1e-12:
            raise Violation("C18/contagion/initial-fraction", ctx)
        if mu == 0 and any(res[i + 1] < res[i] - 1e-12 for i in range(len(res) - 1) if res[i] > 0 or res[i + 1] > 0):
            raise Violation("C18/contagion/decreased-with-mu-0", ctx)
        if b == 0 and bD == 0 and any(res[i + 1] > res[i] + 1e-12 for i in range(len(res) - 1)):
            raise Violation("C18/contagion/increased-with-beta-0", ctx)
        eff = None
        if all(r in (0, 1) for r in (b, bD, mu)):
            eff = (b, bD, mu)
            stats["deterministic_regimes"] = stats.get("deterministic_regimes", 0) + 1
        # (runs whose uniform draws are pinned low / high stay in the mix as extreme outcomes of the random source, but
        # no exact trajectory is claimed for them: whether an event fires for `u < rate` or for `u >= 1 - rate` is the
        # implementation's business - see DESIGN 12.8d)
        if eff is not None:
            ref = _reference(spec, set(case["infected"]), case["T"], *eff)
            if any(abs(x - y) > 1e-12 for x, y in zip(res, ref)):
                raise Violation("C18/contagion/trajectory", {"reference": ref, "effective_rates": list(eff), **ctx})
        stats["contagion_runs"] = stats.get("contagion_runs", 0) + 1
        stats["events"] = stats.get("events", 0) + sum(1 for i in range(len(res) - 1) if res[i] != res[i + 1])
        traces.append(fac.digest())
        for k, v in fac.stats()["overrides"].items():
            stats.setdefault("_over", {})[k] = stats.setdefault("_over", {}).get(k, 0) + v
        for k, v in fac.stats()["draws"].items():
            stats.setdefault("_draws", {})[k] = stats.setdefault("_draws", {}).get(k, 0) + v
        head = fac.head
    return head


def _exec_walk(case, stats, traces):
    spec = case["spec"]
    wts = case.get("weights")
    h = _gen.build_hypergraph(spec, weights=wts, weighted=bool(wts))
    if case["seed"] % 4 == 1 and len(spec["edges"]) >= 1:
        c = h.copy()  # a copy is edited; the walk is defined on the original
        c.remove_edge(tuple(spec["edges"][-1]))
        c.add_node("extra-node")
        stats["copies_edited_before_run"] = stats.get("copies_edited_before_run", 0) + 1
    edges = [list(e) for e in spec["edges"]]
    head = _walk_state(case, h, {"nodes": spec["nodes"], "edges": edges}, stats, traces, 0)
    for idx, (old, new) in enumerate(case.get("rewires", []), start=1):
        try:
            h.remove_edge(tuple(old))
            if wts:
                h.add_edge(tuple(new), weight=wts[len(spec["edges"]) + idx - 1])
            else:
                h.add_edge(tuple(new))
        except Exception as e:  # noqa: a legal in-place edit of the input that the library refuses
            raise Violation("C18/walk/rewire-raised", {"exception": repr(e), "removed": short(old), "added": short(new), "phase": idx})
        edges = [e for e in edges if set(e) != set(old)] + [list(new)]
        _walk_state(case, h, {"nodes": spec["nodes"], "edges": edges}, stats, traces, idx)
        stats["requeries_after_rewire"] = stats.get("requeries_after_rewire", 0) + 1
    return head


def _walk_state(case, h, spec, stats, traces, phase):
    from hypergraphx.dynamics import randwalk as RW

    n = len(spec["nodes"])
    ctx = {"edges": short(spec["edges"], 300), "phase": phase}
    fac = Facade(derive(case["seed"], "walkphase", phase), q=case["q"])
    try:
        with fac:
            K = np.array(RW.transition_matrix(h).todense())
            walk = RW.random_walk(h, case["start"], case["time"])
    except DrawBudgetExceeded as e:
        raise Violation("C18/walk/liveness-draw-budget", {"why": str(e), **ctx})
    except Exception as e:  # noqa
        raise Violation("C18/walk/raised", {"exception": repr(e), **ctx})
    # the walk's oracle: transition matrix by definition (sampled inputs only)
    W = np.zeros((n, n))
    for e in spec["edges"]:
        for i in e:
            for j in e:
                if i != j:
                    W[i, j] += len(e) - 1
    Kref = W / W.sum(axis=1, keepdims=True)
    if K.shape != (n, n) or not np.allclose(K, Kref, rtol=1e-10, atol=1e-12):
        raise Violation("C18/walk/transition-matrix", {"library": short(K.tolist(), 300), "definition": short(Kref.tolist(), 300), **ctx})
    if not np.allclose(K.sum(axis=1), 1.0, atol=1e-10):
        raise Violation("C18/walk/not-row-stochastic", ctx)
    walk = [int(x) for x in walk]
    if len(walk) != case["time"] + 1 or walk[0] != case["start"]:
        raise Violation("C18/walk/length-or-start", {"walk": short(walk), **ctx})
    share = {(i, j) for e in spec["edges"] for i in e for j in e if i != j}
    for a, b in zip(walk, walk[1:]):
        if (a, b) not in share:
            raise Violation("C18/walk/step-without-common-hyperedge", {"from": a, "to": b, "walk": short(walk), **ctx})
    # densities
    if all(type(x) is int for x in case["density"]):
        s0 = np.array(case["density"])  # integer dtype on purpose
        stats["integer_density_starts"] = stats.get("integer_density_starts", 0) + 1
    else:
        s0 = np.array(case["density"], dtype=float)
        s0 = s0 / s0.sum()
    s = np.array(s0, dtype=float)
    try:
        dens = RW.random_walk_density(h, s0.copy(), min(case["time"], 25))
    except Exception as e:  # noqa
        raise Violation("C18/walk/density-raised", {"exception": repr(e), **ctx})
    if len(dens) != min(case["time"], 25) + 1:
        raise Violation("C18/walk/density-length", ctx)
    prev = s
    for d in dens[1:]:
        d = np.asarray(d, dtype=float).ravel()
        if not np.allclose(d, prev @ Kref, rtol=1e-9, atol=1e-12) or abs(d.sum() - 1) > 1e-9:
            raise Violation("C18/walk/density-step", {"density": short(d.tolist()), "expected": short((prev @ Kref).tolist()), **ctx})
        prev = d
    # stationary state (cross-invariant on the sampled input)
    try:
        pi = np.asarray(RW.RW_stationary_state(h), dtype=float).ravel()
    except Exception as e:  # noqa
        raise Violation("C18/walk/stationary-raised", {"exception": repr(e), **ctx})
    ref = (W.sum(axis=1)) / W.sum()
    if pi.shape != (n,) or not np.allclose(pi, ref, rtol=1e-7, atol=1e-9) or not np.allclose(pi @ Kref, pi, atol=1e-9):
        raise Violation("C18/walk/stationary-state", {"library": short(pi.tolist()), "expected": short(ref.tolist()), **ctx})
    stats["walks"] = stats.get("walks", 0) + 1
    stats["walk_steps"] = stats.get("walk_steps", 0) + case["time"]
    traces.append(fac.digest())
    stats["_over"] = fac.stats()["overrides"]
    stats["_draws"] = fac.stats()["draws"]
    return fac.head


def execute(case):
    sut()
    stats = {}
    traces = []
    try:
        if case["family"] == "walk":
            head = _exec_walk(case, stats, traces)
        else:
            head = _exec_contagion(case, stats, traces)
    except Violation as v:
        return {"violation": {"sig": v.sig, "detail": v.detail}, "digest": "violation:" + v.sig, "stats": {},
                "sample": {"case": case}}
    over = stats.pop("_over", {})
    draws = stats.pop("_draws", {})
    nt = (stats.get("events", 0) >= 1 or stats.get("walk_steps", 0) >= 3) and (sum(over.values()) >= 1)
    return {"violation": None, "digest": digest([case["family"], traces]),
            "stats": {"c18": stats, "faults": over, "draws": draws}, "nontrivial": nt,
            "sample": {"case": case, "draw_trace_head": head}}


def simplify(case):
    c = json.loads(json.dumps(case))
    if case.get("q", 0) > 0:
        c2 = dict(c)
        c2["q"] = 0.0
        yield c2
    if case["family"] == "contagion":
        if len(case["triples"]) > 1:
            for i in range(len(case["triples"])):
                c2 = json.loads(json.dumps(c))
                c2["triples"] = [case["triples"][i]]
                yield c2
        if case["T"] > 2:
            c2 = json.loads(json.dumps(c))
            c2["T"] = case["T"] - 1
            yield c2
        for i in range(len(case["spec"]["edges"])):
            c2 = json.loads(json.dumps(c))
            del c2["spec"]["edges"][i]
            yield c2
    else:
        if case["time"] > 1:
            c2 = json.loads(json.dumps(c))
            c2["time"] = case["time"] // 2
            yield c2


def sim_time(stats):
    c = stats.get("c18", {})
    return {"unit": "contagion runs x T discrete steps + walk steps", "value": c.get("contagion_runs", 0) + c.get("walk_steps", 0),
            "state_changes": c.get("events", 0)}
