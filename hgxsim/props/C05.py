"""C05 - sub-hypergraph extraction and copy (Engine H, drive-only; partly claimed)."""
import json
import random

from .. import hist
from .. import observe as O
from ..core import Ambiguous, Violation, derive, digest, short, sut, tag
from ..models import Model

LEVEL = "exploration"
COMPONENTS = {
    "real": ["Hypergraph.subhypergraph / subhypergraph_by_orders / get_edges(subhypergraph=True) / subhypergraph_largest_component / copy",
             "DirectedHypergraph.get_edges(subhypergraph=True) / copy", "hypergraphx.utils.cc (largest component)",
             "all container mutators (they drive the histories)"],
    "stub": [],
    "simulator_owned": ["operation order over several live objects; copy() as a fork whose two sides keep being mutated",
                        "rejected operations", "states with id holes / removal history"],
}
ASSUMPTIONS = [
    "partly claimed: most steps sample one selection (a node subset, an order/size list, an (order|size, up_to, keep_isolated) combination, the largest component without filter); one step in a quarter (quick) / half (thorough) of the runs enumerates every node subset (<= 6 nodes, else 24 samples), every (order|size, 1..6, up_to, keep_isolated) combination and 16 order/size lists x keep_nodes on the state reached",
    "expected result computed from the source's own public observation, so a C01/C02 defect cannot masquerade as C05",
    "aliasing between an extraction and its source after later mutation is not asserted (the statement claims it for copy() only)",
    "hypergraph-level metadata of an extraction is not asserted (statement silent)",
]
RULE = ("one run = one seeded history on a Hypergraph or DirectedHypergraph with extraction steps (d_sub*, d_lcc) and copy() forks; "
        "every extraction is compared (full public observation, metadata included) with the selection recomputed from the source's "
        "own observation, the source is re-observed, and after every operation all *other* live objects must be unchanged.  "
        "Non-trivial: >= 3 state-changing ops, >= 1 removal before an extraction or >= 1 fork; distinct = event-log digests.")
TIERS = {"quick": {"runs": 6000, "wall_cap": 240, "det_seeds": 12, "min_tests": 500},
         "thorough": {"runs": 80000, "wall_cap": 3000, "det_seeds": 40, "min_tests": 1500}}

EXTRA = {"H": ["d_subnodes", "d_suborders", "d_subedges", "d_lcc", "d_set_inc_md"], "D": ["d_subedges", "d_set_inc_md"]}


def propose(g, model, name):
    r = g.rng
    nodes = sorted(model.nodes, key=tag)
    if name == "d_subnodes":
        k = r.randint(0, len(nodes))
        return {"op": name, "nodes": r.sample(nodes, k)}
    if name == "d_suborders":
        vals = r.sample([1, 2, 3, 4, 5, 6], r.randint(1, 3))
        op = {"op": name, "by": r.choice(["orders", "sizes"]), "vals": vals}
        if op["by"] == "orders":
            op["vals"] = [v - 1 for v in vals]
        x = r.random()
        if x < 0.4:
            op["keep_nodes"] = False
        elif x < 0.7:
            op["keep_nodes"] = True
        return op
    if name == "d_subedges":
        op = {"op": name, "by": r.choice(["order", "size", None]), "up_to": r.random() < 0.5,
              "keep_iso": r.random() < 0.5}
        s = r.randint(0, 6)
        if op["by"] == "order":
            op["val"] = s - 1
        elif op["by"] == "size":
            op["val"] = s
        else:
            op["up_to"] = False
        return op
    if name == "d_lcc":
        return {"op": name}
    if name == "d_set_inc_md":
        f = g.present_frag(model)
        if f is None:
            return None
        key = model.key(f)
        return {"op": name, "e": f["e"], "n": r.choice(sorted(model.knodes(key), key=tag)), "md": g.md(True)}
    return None


def generate(seed, tier):
    rng = random.Random(seed)
    kind = rng.choice(["H", "H", "D"])
    cfg = hist.gen_config(rng, kind, tier, extra_ops=EXTRA[kind], extra_weight=4.0)
    cfg["reject_rate"] = min(cfg["reject_rate"], 0.1)
    cfg["opw"]["copy"] = cfg["opw"].get("copy", 1) * 2
    cfg["length"] = min(cfg["length"], 45 if tier == "quick" else 100)
    ops, gstats = hist.generate_history(rng, cfg, extra_propose=propose)
    if kind == "H" and rng.random() < 0.08:
        # scenario: one giant component (10-14 nodes) plus a small remainder that carries a hyperedge of its own,
        # then the largest-component extraction; the random history continues afterwards
        labs = list(range(20, 36)) if cfg["labels"] not in ("str", "numstr", "str16") else ["g%02d" % i for i in range(16)]
        m = rng.randint(10, 14)
        giant, rest = labs[:m], labs[m:m + 1]
        shape = rng.choice(["path", "block", "triangle-tail"])
        if shape == "path":
            pre = [{"op": "add_edge", "a": 0, "e": [giant[i], giant[i + 1]] + ([giant[(i + 5) % m]] if rng.random() < 0.3 and (i + 5) % m not in (i, i + 1) else [])} for i in range(m - 1)]
        elif shape == "block":
            # one dense block (a hyperedge of 6-8 nodes), pendant nodes hanging off one hub of the block, a tail behind one
            # of them: the search frontier fills up with entries of the block while distant nodes are still undiscovered
            b = rng.randint(6, 8)
            hub = giant[rng.randrange(b)]
            pre = [{"op": "add_edge", "a": 0, "e": giant[:b]}]
            pend = giant[b:]
            pre += [{"op": "add_edge", "a": 0, "e": [hub, x]} for x in pend[:2]]
            pre += [{"op": "add_edge", "a": 0, "e": [pend[i], pend[i + 1]]} for i in range(1, len(pend) - 1)]
            rng.shuffle(pre)
        else:
            # a small hyperedge with a long tail behind its last node
            pre = [{"op": "add_edge", "a": 0, "e": giant[:3]}]
            pre += [{"op": "add_edge", "a": 0, "e": [giant[i], giant[i + 1]]} for i in range(2, m - 1)]
            if rng.random() < 0.5:
                pre.reverse()
        pre.append({"op": "add_edge", "a": 0, "e": [rest[0]]})
        if cfg["weighted"]:
            for o in pre:
                o["w"] = rng.randint(1, 5)
        pre.append({"op": "d_lcc", "a": 0})
        cfg["universe"] = list(cfg["universe"]) + labs
        k0 = 1 if ops and ops[0].get("op") == "ctor" else 0
        ops = ops[:k0] + pre + ops[k0:]
    if len(ops) >= 4 and rng.random() < (0.25 if tier == "quick" else 0.5):
        # one exhaustive selection step per run, on actor 0, somewhere after the third operation
        pos = rng.randint(3, len(ops))
        ex = {"op": "d_exhaustive", "a": 0}
        if len(cfg["universe"]) > 6:
            ex["subsets"] = [rng.sample(cfg["universe"], rng.randint(0, len(cfg["universe"]))) for _ in range(24)]
        ops.insert(pos, ex)
    return {"kind": kind, "weighted": cfg["weighted"], "universe": cfg["universe"], "seed": seed, "ops": ops}


def _model_of(kind, c, nodes, keys):
    m = Model(kind, c["weighted"])
    for n in nodes:
        m.nodes[n] = c["nodes"][n]
    for e, w, md in c["edges"]:
        k = frozenset(e) if kind == "H" else (frozenset(e[0]), frozenset(e[1]))
        if k in keys:
            m.edges[k] = [w, md]
    return m


def _keys(kind, c):
    out = {}
    for e, w, md in c["edges"]:
        k = frozenset(e) if kind == "H" else (frozenset(e[0]), frozenset(e[1]))
        out[k] = (k if kind == "H" else (k[0] | k[1]))
    return out  # key -> node set


def _largest_classes(c):
    parent = {n: n for n in c["nodes"]}

    def find(x):
        while parent[x] != x:
            parent[x] = parent[parent[x]]
            x = parent[x]
        return x

    for e, w, md in c["edges"]:
        e = list(e)
        for n in e[1:]:
            parent[find(n)] = find(e[0])
    classes = {}
    for n in c["nodes"]:
        classes.setdefault(find(n), set()).add(n)
    best = max((len(v) for v in classes.values()), default=0)
    return [v for v in classes.values() if len(v) == best]


def make_handlers(stats):
    def wrap(fn):
        def h(w, a, op):
            obj, model = w.actors[a]
            kind = w.kind
            try:
                c = O.extract(kind, obj)
                before = digest(O.observe(kind, obj, w.U, w.probe_keys))
            except Exception:
                stats["unextractable"] = stats.get("unextractable", 0) + 1
                return "skip"
            info = fn(w, obj, kind, c, op)
            after = digest(O.observe(kind, obj, w.U, w.probe_keys))
            if after != before:
                raise Violation(f"C05/source-changed/{op['op']}", {"op": op})
            stats["extractions"] = stats.get("extractions", 0) + 1
            if any(k.startswith("remove") and k.endswith(":ok") for k in w.stats["outcomes"]):
                stats["extractions_after_removal"] = stats.get("extractions_after_removal", 0) + 1
            return info
        return h

    def call(what, f, *a, **kw):
        try:
            return f(*a, **kw)
        except Exception as e:  # noqa
            raise Violation(f"C05/{what}/raised", {"args": short((a, kw)), "exception": repr(e)})

    def subnodes(w, obj, kind, c, op):
        sel = list(op["nodes"])
        if any(n not in c["nodes"] for n in sel):
            raise Ambiguous("selection names an absent node")
        res = call("subnodes", obj.subhypergraph, sel)
        keys = {k for k, ns in _keys(kind, c).items() if ns <= set(sel)}
        exp = _model_of(kind, c, sel, keys)
        hist.compare_derived("C05", "subnodes", kind, res, exp, w.U, ignore_md=False, ignore_keys=("hmeta",), ctx=op)
        return len(keys)

    def suborders(w, obj, kind, c, op):
        kw = {op["by"]: list(op["vals"])}
        if "keep_nodes" in op:
            kw["keep_nodes"] = op["keep_nodes"]
        res = call("suborders", obj.subhypergraph_by_orders, **kw)
        sizes = set(op["vals"]) if op["by"] == "sizes" else {v + 1 for v in op["vals"]}
        allk = _keys(kind, c)
        keys = {k for k, ns in allk.items() if len(ns) in sizes}
        if op.get("keep_nodes", True):
            nodes = list(c["nodes"])
        else:
            nodes = sorted({n for k in keys for n in allk[k]}, key=tag)
        exp = _model_of(kind, c, nodes, keys)
        hist.compare_derived("C05", "suborders" + ("" if op.get("keep_nodes", True) else "[keep_nodes=False]"),
                             kind, res, exp, w.U, ignore_md=False, ignore_keys=("hmeta",), ctx=op)
        return len(keys)

    def subedges(w, obj, kind, c, op):
        kw = {"subhypergraph": True}
        if op["by"]:
            kw[op["by"]] = op["val"]
            kw["up_to"] = op["up_to"]
        if op["keep_iso"]:
            kw["keep_isolated_nodes"] = True
        res = call("subedges", obj.get_edges, **kw)
        allk = _keys(kind, c)
        if op["by"]:
            s = op["val"] + (1 if op["by"] == "order" else 0)
            keys = {k for k, ns in allk.items() if (len(ns) <= s if op["up_to"] else len(ns) == s)}
        else:
            keys = set(allk)
        if op["keep_iso"]:
            nodes = list(c["nodes"])
        else:
            nodes = sorted({n for k in keys for n in allk[k]}, key=tag)
        exp = _model_of(kind, c, nodes, keys)
        hist.compare_derived("C05", "subedges" + ("[keep_iso]" if op["keep_iso"] else "[no_iso]"),
                             kind, res, exp, w.U, ignore_md=False, ignore_keys=("hmeta",), ctx=op)
        return len(keys)

    def lcc(w, obj, kind, c, op):
        if not c["nodes"]:
            return "empty"
        res = call("lcc", obj.subhypergraph_largest_component)
        got = O.q(res.get_nodes)
        classes = _largest_classes(c)
        match = [cl for cl in classes if not O._e(got) and set(got) == cl and len(got) == len(cl)]
        if not match:
            raise Violation("C05/derive/lcc/nodes", {"library_nodes": short(got), "largest_classes": short(classes)})
        sel = match[0]
        keys = {k for k, ns in _keys(kind, c).items() if ns <= sel}
        exp = _model_of(kind, c, sorted(sel, key=tag), keys)
        hist.compare_derived("C05", "lcc", kind, res, exp, w.U, ignore_md=False, ignore_keys=("hmeta",), ctx=op)
        if len(classes) > 1:
            stats["lcc_ties"] = stats.get("lcc_ties", 0) + 1
        return len(keys)

    def exhaustive(w, obj, kind, c, op):
        """Every node subset (<= 6 nodes; otherwise the given sample), every (order|size, value, up_to, keep_isolated)
        combination and every one- and two-element list of sizes / orders, on the state the history has reached."""
        import itertools

        n = 0
        nodes = sorted(c["nodes"], key=tag)
        if kind == "H":
            if len(nodes) <= 6:
                subsets = [list(s) for k in range(len(nodes) + 1) for s in itertools.combinations(nodes, k)]
            else:
                subsets = [[x for x in sub if x in c["nodes"]] for sub in op.get("subsets", [])]
            for sub in subsets:
                subnodes(w, obj, kind, c, {"nodes": sub})
                n += 1
            for by in ("sizes", "orders"):
                for vals in [[v] for v in range(1, 7)] + [[a, b] for a in range(1, 6) for b in range(a + 1, 7)][:10]:
                    for keep in (None, True, False):
                        o2 = {"by": by, "vals": [v - (1 if by == "orders" else 0) for v in vals]}
                        if keep is not None:
                            o2["keep_nodes"] = keep
                        suborders(w, obj, kind, c, o2)
                        n += 1
        for by in ("size", "order"):
            for val in range(0, 7):
                for up in (False, True):
                    for iso in (False, True):
                        subedges(w, obj, kind, c, {"by": by, "val": val - (1 if by == "order" else 0), "up_to": up, "keep_iso": iso})
                        n += 1
        for iso in (False, True):
            subedges(w, obj, kind, c, {"by": None, "up_to": False, "keep_iso": iso})
            n += 1
        stats["exhaustive_steps"] = stats.get("exhaustive_steps", 0) + 1
        stats["exhaustive_selections"] = stats.get("exhaustive_selections", 0) + n
        return n

    def set_inc_md(w, a, op):
        """Not an extraction: a mutation of the per-incidence metadata (the reference model does not track it; copy()
        must carry it and keep it independent)."""
        obj, model = w.actors[a]
        e = tuple(op["e"]) if w.kind == "H" else (tuple(op["e"][0]), tuple(op["e"][1]))
        try:
            obj.set_incidence_metadata(e, op["n"], json.loads(json.dumps(op["md"])))
            stats["incidence_metadata_set"] = stats.get("incidence_metadata_set", 0) + 1
        except Exception:
            stats["incidence_metadata_rejected"] = stats.get("incidence_metadata_rejected", 0) + 1
        return "inc"

    return {"d_subnodes": wrap(subnodes), "d_suborders": wrap(suborders), "d_subedges": wrap(subedges),
            "d_lcc": wrap(lcc), "d_exhaustive": wrap(exhaustive), "d_set_inc_md": set_inc_md}


def execute(case):
    sut()
    stats = {}
    kind = case["kind"]
    state = {"others": None}

    def snapshot(w, skip):
        return [None if j == skip else digest(O.observe(kind, obj, w.U, w.probe_keys))
                for j, (obj, m) in enumerate(w.actors)]

    # fork independence: before each op remember every other actor's observation
    class Hook:
        pre = None

    def on_step(w, a, op, outcome, exc):
        # runs after the op: compare the others with what they were after the previous step
        cur = [digest([O.observe(kind, obj, w.U, []), _inc_md(obj)]) for obj, m in w.actors]
        prev = Hook.pre
        if op["op"] == "copy":
            src, new = cur[a], cur[-1]
            if src != new:
                d = O.compare(kind, O.observe(kind, w.actors[-1][0], w.U, w.probe_keys),
                              _as_model_obs(kind, w.actors[a][0], w))
                raise Violation("C05/copy/not-equal", {"step": len(w.log) - 1, "diff": short(d)})
            stats["copies"] = stats.get("copies", 0) + 1
        if prev is not None:
            for j in range(min(len(prev), len(cur))):
                if j != a and prev[j] != cur[j]:
                    raise Violation(f"C05/copy/interference/{op['op']}", {
                        "step": len(w.log) - 1, "op": op, "operated_actor": a, "changed_actor": j})
            if len(cur) > 1:
                stats["independence_checks"] = stats.get("independence_checks", 0) + len(cur) - 1
        Hook.pre = cur

    try:
        res, w = hist.run_world("C05", case, mode="drive", handlers=make_handlers(stats), on_step=on_step)
    except Violation as v:
        return {"violation": {"sig": v.sig, "detail": v.detail}, "digest": "violation:" + v.sig, "stats": {},
                "sample": hist.sample_of(case)}
    res["stats"]["c05"] = stats
    res["nontrivial"] = res["stats"].get("state_changing_ops", 0) >= 3 and (
        stats.get("extractions_after_removal", 0) >= 1 or stats.get("copies", 0) >= 1)
    res["sample"] = hist.sample_of(case)
    return res


def _inc_md(obj):
    """Per-incidence metadata through the public getter, canonical."""
    try:
        d = obj.get_all_incidences_metadata()
        return sorted([repr(k), json.dumps(v, sort_keys=True, default=repr)] for k, v in d.items())
    except Exception as e:  # noqa
        return "!EXC:" + type(e).__name__


def _as_model_obs(kind, obj, w):
    return O.observe(kind, obj, w.U, w.probe_keys)


def simplify(case):
    return hist.simplify_ops(case)
