"""C07 - hash_hypergraph is a canonical fingerprint (Engine H, drive-only)."""
import json
import os
import random
import subprocess

from .. import hist
from .. import observe as O
from ..core import ROOT, Ambiguous, Violation, derive, digest, short, sut, tag

KINDS = ["H", "D", "T", "M"]
LEVEL = "exploration"
COMPONENTS = {
    "real": ["hypergraphx.readwrite.hashing.hash_hypergraph", "expose_attributes_for_hashing of the four containers",
             "all container mutators (they drive the histories)", "json, hashlib"],
    "stub": [],
    "simulator_owned": ["operation order over several live objects", "rejected operations", "insert-then-remove detours",
                        "PYTHONHASHSEED of the interpreter (two fresh interpreters per batch)"],
}
ASSUMPTIONS = [
    "content = what the public API reports (nodes, node metadata, hyperedges, weights with their numeric type, hyperedge metadata, weightedness, hypergraph metadata)",
    "labels mutually comparable, metadata JSON-native with string keys (property's quantifier)",
    "equality direction: every pair of (run, step, object) in the batch that met in the same content; difference direction: every pair with different content, plus single-element edits of rebuilt twins",
    "sampling of histories; a clean batch is evidence, not proof",
]
RULE = ("one run = one seeded history (valid and rejected operations, copy() forks) on one of the four containers; after every "
        "operation every live object is hashed and (content digest, hash) is added to batch-wide tables that must stay "
        "functions in both directions; on sampled steps the object is rebuilt (sorted and shuffled insertion) and single-element "
        "edits are applied.  Non-trivial: >= 3 state-changing operations and >= 1 removal; distinct = distinct event-log digests.")
TIERS = {"quick": {"runs": 7200, "wall_cap": 240, "det_seeds": 12, "min_tests": 400},
         "thorough": {"runs": 60000, "wall_cap": 3000, "det_seeds": 40, "min_tests": 1200}}


def generate(seed, tier):
    rng = random.Random(seed)
    kind = rng.choice(KINDS)
    cfg = hist.gen_config(rng, kind, tier)
    cfg["reject_rate"] = min(cfg["reject_rate"], 0.1)
    # detours are what this property is about
    for name in ("remove_edge", "remove_node", "remove_edges", "remove_nodes"):
        if name in cfg["opw"]:
            cfg["opw"][name] *= 2
    cfg["length"] = min(cfg["length"], 40 if tier == "quick" else 90)
    ops, gstats = hist.generate_history(rng, cfg)
    return {"kind": kind, "weighted": cfg["weighted"], "universe": cfg["universe"], "seed": seed, "ops": ops}


def _hash(obj):
    from hypergraphx.readwrite.hashing import hash_hypergraph

    return hash_hypergraph(obj)


def _edits(kind, c, universe):
    """Single-element edits of content c: list of (name, edited content, weighted override)."""
    out = []
    cp = lambda x: json.loads(json.dumps(x))  # noqa

    def clone():
        return {"kind": kind, "weighted": c["weighted"], "hmeta": cp(c["hmeta"]),
                "nodes": {n: cp(m) for n, m in c["nodes"].items()},
                "edges": [[e, w, cp(m)] for e, w, m in c["edges"]]}

    absent = [n for n in universe if n not in c["nodes"]]
    if absent:
        d = clone()
        d["nodes"][absent[0]] = {}
        out.append(("add-node", d, None))
    if c["nodes"]:
        n = sorted(c["nodes"], key=tag)[0]
        d = clone()
        md = d["nodes"][n] if isinstance(d["nodes"][n], dict) else {}
        md["k"] = "edited" if md.get("k") != "edited" else "edited2"
        d["nodes"][n] = md
        out.append(("node-metadata", d, None))
        d = clone()
        md = d["nodes"][n] if isinstance(d["nodes"][n], dict) else {}
        md.update({"node": "other", "metadata": {"b": 2}})
        d["nodes"][n] = md
        out.append(("reserved-keys-in-node-metadata", d, None))
    if c["edges"]:
        d = clone()
        d["edges"] = d["edges"][1:]
        out.append(("drop-hyperedge", d, None))
        d = clone()
        md = d["edges"][0][2]
        md["k"] = "edited" if md.get("k") != "edited" else "edited2"
        out.append(("hyperedge-metadata", d, None))
        # metadata whose keys collide with the names a fingerprint is likely to use for its own fields (the text
        # format leaves "weight" / "time" / "layer" keys behind): the real weight must still matter
        d = clone()
        d["edges"][0][2].update({"weight": 99, "nodes": [0], "metadata": {"a": 1}, "time": 3, "layer": "zz"})
        out.append(("reserved-keys-in-hyperedge-metadata", d, None))
        if c["weighted"]:
            d2 = clone()
            d2["edges"][0][2].update({"weight": 99, "nodes": [0], "metadata": {"a": 1}, "time": 3, "layer": "zz"})
            d2["edges"][0][1] = d2["edges"][0][1] + 1
            out.append(("reserved-keys-and-bumped-weight", d2, None))
        if c["weighted"]:
            d = clone()
            d["edges"][0][1] = d["edges"][0][1] + 1
            out.append(("bump-weight", d, None))
            w0 = c["edges"][0][1]
            # two weights that differ by 1e-12 (relative): a fingerprint that rounds weights collides on them
            d = clone()
            d["edges"][0][1] = float(w0) if float(w0) != w0 or type(w0) is float else float(w0) + 0.5
            base = d["edges"][0][1]
            out.append(("float-weight", d, None))
            d = clone()
            d["edges"][0][1] = base + max(abs(base), 1.0) * 1e-12
            out.append(("float-weight-nudged", d, None))
            if type(w0) is int:
                d = clone()
                d["edges"][0][1] = float(w0)
                out.append(("weight-numeric-type", d, None))
        e0 = c["edges"][0][0]
        present = {O.cedge(kind, e) for e, _, _ in c["edges"]}
        if kind == "T":
            ne = (e0[0] + 1, e0[1])
            if O.cedge(kind, ne) not in present:
                d = clone()
                d["edges"][0][0] = ne
                out.append(("change-time", d, None))
        if kind == "M":
            ne = (e0[0], e0[1] + "_x" if isinstance(e0[1], str) else str(e0[1]))  # 1 -> "1": a look-alike of another type
            if O.cedge(kind, ne) not in present:
                d = clone()
                d["edges"][0][0] = ne
                out.append(("change-layer", d, None))
        if kind == "D":
            ne = (e0[1], e0[0])
            if O.cedge(kind, ne) not in present:
                d = clone()
                d["edges"][0][0] = ne
                out.append(("swap-direction", d, None))
    d = clone()
    d["hmeta"]["k"] = "edited" if d["hmeta"].get("k") != "edited" else "edited2"
    out.append(("hypergraph-metadata", d, None))

    def reorder(md):
        if isinstance(md, dict):
            for key in sorted(md):
                v = md[key]
                if isinstance(v, list) and len(v) >= 2 and v != v[::-1]:
                    md[key] = v[::-1]
                    return True
        return False

    d = clone()
    if any(reorder(d["nodes"][n]) for n in sorted(d["nodes"], key=tag)):
        out.append(("reorder-list-in-node-metadata", d, None))
    d = clone()
    if any(reorder(rec[2]) for rec in d["edges"]):
        out.append(("reorder-list-in-hyperedge-metadata", d, None))
    d = clone()
    d["hmeta"]["lst"] = ["x", "y"]
    d2 = clone()
    d2["hmeta"]["lst"] = ["y", "x"]
    out.append(("list-order-in-hypergraph-metadata", d, None))
    out.append(("list-order-in-hypergraph-metadata", d2, None))
    if all(type(w) is int and w == 1 for _, w, _ in c["edges"]):
        out.append(("toggle-weightedness", clone(), (not c["weighted"])))
    return out


def _run_single(case, tables, trace):
    """Drive one history; fill tables d->(h, where) and h->(d, where); raise Violation."""
    kind = case["kind"]
    seed = case.get("seed", 0)
    crng = random.Random(derive(seed, "c07-checks"))
    stats_extra = {"hash_calls": 0, "rebuilds": 0, "edits": 0, "detour_returns": 0}
    seen_d = {}

    def record(d, h, where):
        if d in tables["d2h"]:
            if tables["d2h"][d][0] != h:
                raise Violation("C07/same-content-different-hash", {
                    "content_digest": d, "hash_a": tables["d2h"][d][0], "at_a": tables["d2h"][d][1],
                    "hash_b": h, "at_b": where})
        else:
            tables["d2h"][d] = [h, where]
        if h in tables["h2d"]:
            if tables["h2d"][h][0] != d:
                raise Violation("C07/different-content-same-hash", {
                    "hash": h, "content_a": tables["h2d"][h][0], "at_a": tables["h2d"][h][1],
                    "content_b": d, "at_b": where})
        else:
            tables["h2d"][h] = [d, where]

    def on_step(w, a, op, outcome, exc):
        step = len(w.log) - 1
        for j, (obj, model) in enumerate(w.actors):
            try:
                c = O.extract(kind, obj)
            except Exception:
                # the object is in a state its own getters cannot describe (a C01-C04 matter): no verdict here
                stats_extra["unextractable"] = stats_extra.get("unextractable", 0) + 1
                continue
            d = O.content_digest(c)
            try:
                h = _hash(obj)
            except Exception as e:  # noqa
                raise Violation("C07/hash-raised", {"step": step, "actor": j, "exception": repr(e)})
            stats_extra["hash_calls"] += 1
            c2 = O.extract(kind, obj)
            if O.content_digest(c2) != d:
                raise Violation("C07/hash-changed-object", {"step": step, "actor": j})
            where = [seed, step, j]
            if d in seen_d and seen_d[d] != (j, step - 1) and op["op"].startswith("remove"):
                stats_extra["detour_returns"] += 1
            seen_d[d] = (j, step)
            record(d, h, where)
            if model.hmeta_unknown:  # after clear(): adopt what is observed (DESIGN 4.5)
                try:
                    model.hmeta = json.loads(json.dumps(obj.get_hypergraph_metadata()))
                    model.hmeta_unknown = False
                except Exception:
                    pass
            if not model.hmeta_unknown:
                # the same table keyed by the content the *history* defines (reference model): two construction
                # histories that end in the same abstract content must hash alike even if the object itself
                # has been left inconsistent by one of them
                md = digest(model.content())
                t = tables.setdefault("m2h", {})
                if md in t:
                    if t[md][0] != h:
                        raise Violation("C07/same-history-content-different-hash", {
                            "model_content_digest": md, "hash_a": t[md][0], "at_a": t[md][1], "hash_b": h, "at_b": where,
                            "content": short(json.dumps(model.content(), default=repr), 600)})
                else:
                    t[md] = [h, where]
                stats_extra["model_keyed_entries"] = stats_extra.get("model_keyed_entries", 0) + 1
            trace.append(h)
            if crng.random() < 0.12:
                stats_extra["rebuilds"] += 1
                for label, rr in (("sorted", None), ("shuffled", random.Random(crng.random()))):
                    try:
                        twin = O.build(kind, c, rr)
                        ht = _hash(twin)
                        dt = O.content_digest(O.extract(kind, twin))
                    except Exception as e:  # noqa
                        raise Violation("C07/rebuild/" + label + "/raised", {"step": step, "exception": repr(e)})
                    if dt != d:
                        # the twin does not have the same content: builder/containers disagree, not a C07 verdict
                        stats_extra["twin_content_mismatch"] = stats_extra.get("twin_content_mismatch", 0) + 1
                        continue
                    if ht != h:
                        raise Violation("C07/rebuild/" + label, {
                            "step": step, "actor": j, "hash_history": h, "hash_rebuilt": ht,
                            "content": short(json.dumps(c, default=repr), 600)})
                if not model.hmeta_unknown:
                    # ... and a twin built from the content the HISTORY defines (reference model): the object reached
                    # through the history must hash like a direct build of that content
                    st = lambda x: tuple(sorted(x, key=tag))  # noqa
                    mc = {"kind": kind, "weighted": model.weighted, "hmeta": json.loads(json.dumps(model.hmeta)),
                          "nodes": {n: json.loads(json.dumps(md)) for n, md in model.nodes.items()}, "edges": []}
                    for k, (wt, md) in model.edges.items():
                        e = st(k) if kind == "H" else ((st(k[0]), st(k[1])) if kind == "D" else ((k[0], st(k[1])) if kind == "T" else (st(k[0]), k[1])))
                        mc["edges"].append([e, wt, json.loads(json.dumps(md))])
                    try:
                        twin = O.build(kind, mc, random.Random(crng.random()))
                        ht = _hash(twin)
                        dt = O.content_digest(O.extract(kind, twin))
                    except Exception:  # noqa
                        dt = None
                    if dt is not None and dt == O.content_digest(mc):
                        stats_extra["rebuilds_from_history_content"] = stats_extra.get("rebuilds_from_history_content", 0) + 1
                        if ht != h:
                            raise Violation("C07/rebuild/from-history-content", {
                                "step": step, "actor": j, "hash_history": h, "hash_direct_build": ht,
                                "content": short(json.dumps(model.content(), default=repr), 600)})
                for name, ec, wtd in _edits(kind, c, w.U):
                    try:
                        twin = O.build(kind, ec, None, weighted=wtd)
                        dt = O.content_digest(O.extract(kind, twin))
                        ht = _hash(twin)
                    except Exception as e:  # noqa
                        stats_extra["edit_build_failed"] = stats_extra.get("edit_build_failed", 0) + 1
                        continue
                    if dt == d:
                        continue  # the edit did not change the observable content
                    stats_extra["edits"] += 1
                    if ht == h:
                        raise Violation("C07/edit/" + name + "/same-hash", {
                            "step": step, "actor": j, "edit": name, "hash": h,
                            "content": short(json.dumps(c, default=repr), 600)})
                    record(dt, ht, [seed, step, "edit:" + name])

    res, w = hist.run_world("C07", case, mode="drive", on_step=on_step)
    brng = random.Random(derive(seed, "c07-big"))
    if brng.random() < 0.06:
        _big_content_checks(kind, case, brng, record, stats_extra)
    res["stats"]["c07"] = stats_extra
    removals = sum(v for k, v in res["stats"]["outcomes"].items() if k.startswith("remove") and k.endswith(":ok"))
    res["nontrivial"] = res["stats"].get("state_changing_ops", 0) >= 3 and removals >= 1
    return res


def _big_content_checks(kind, case, crng, record, stats_extra):
    """A content far larger than what the histories reach (60 nodes, 80 hyperedges, metadata): the fingerprint of
    its single-element edits - in particular of the largest node, the last hyperedge, the weightedness flag - must differ."""
    n = 60
    weighted = crng.random() < 0.5
    nodes = {i: ({"k": "v%d" % i} if i % 3 == 0 else {}) for i in range(n)}
    edges, seen = [], set()
    while len(edges) < 80:
        k = crng.randint(2, 6)
        ns = tuple(sorted(crng.sample(range(n), k)))
        if kind == "D":
            cut = crng.randint(1, k - 1)
            e = (ns[:cut], ns[cut:])
        elif kind == "T":
            e = (crng.randint(0, 30), ns)
        elif kind == "M":
            e = (ns, crng.choice(["a", "b"]))
        else:
            e = ns
        if repr(e) not in seen:
            seen.add(repr(e))
            edges.append([e, crng.randint(1, 9) if weighted else 1, {"note": "m%d" % len(edges)} if len(edges) % 4 == 0 else {}])
    types = {"H": "Hypergraph", "D": "DirectedHypergraph", "T": "TemporalHypergraph", "M": "MultiplexHypergraph"}
    base = {"kind": kind, "weighted": weighted, "hmeta": {"weighted": weighted, "type": types[kind]}, "nodes": nodes, "edges": edges}
    variants = [("big/base", base, None)] + [("big/" + nm, c, wtd) for nm, c, wtd in _edits(kind, base, list(range(n)) + [1000])]
    # edits of the *largest* node and of the last hyperedge in sorted order
    big = {"kind": kind, "weighted": weighted, "hmeta": dict(base["hmeta"]), "nodes": dict(nodes), "edges": [list(x) for x in edges]}
    big["nodes"][n - 1] = {"k": "edited-last-node"}
    variants.append(("big/last-node-metadata", big, None))
    big2 = {"kind": kind, "weighted": weighted, "hmeta": dict(base["hmeta"]), "nodes": dict(nodes), "edges": [list(x) for x in edges]}
    big2["nodes"][1000] = {}
    variants.append(("big/add-largest-node", big2, None))
    hashes = {}
    for name, content, wtd in variants:
        try:
            twin = O.build(kind, content, None, weighted=wtd)
            dt = O.content_digest(O.extract(kind, twin))
            ht = _hash(twin)
        except Exception:
            stats_extra["edit_build_failed"] = stats_extra.get("edit_build_failed", 0) + 1
            continue
        record(dt, ht, [case.get("seed", 0), -1, name])
        stats_extra["big_content_hashes"] = stats_extra.get("big_content_hashes", 0) + 1


def execute(case):
    sut()
    tables = {"d2h": {}, "h2d": {}, "m2h": {}}
    trace = []
    try:
        if "pair" in case:
            for sub in case["pair"]:
                res = _run_single(sub, tables, trace)
            res["digest"] = digest(trace)
            return res
        if "hashseeds" in case:
            return _execute_hashseeds(case)
        res = _run_single(case, tables, trace)
    except Violation as v:
        return {"violation": {"sig": v.sig, "detail": v.detail}, "digest": "violation:" + v.sig, "stats": {},
                "sample": hist.sample_of(case) if "ops" in case else None}
    res["digest"] = digest([case["kind"], trace, res["digest"]])
    res["stats"]["_maps"] = {"d2h": {d: v for d, v in tables["d2h"].items()},
                             "h2d": {h: v for h, v in tables["h2d"].items()},
                             "m2h": {d: v for d, v in tables["m2h"].items()}}
    res["sample"] = hist.sample_of(case)
    return res


def simplify(case):
    if "pair" in case:
        for side in (0, 1):
            ops = case["pair"][side]["ops"]
            for i in range(len(ops) - 1, -1, -1):
                c = json.loads(json.dumps(case))
                del c["pair"][side]["ops"][i]
                yield c
    elif "ops" in case:
        yield from hist.simplify_ops(case)


# ---------------------------------------------------------------- batch-level hooks
def conflict_case(name, key, v1, v2, tier):
    """Called by the runner when the merged tables stop being functions: build the pair case."""
    (_, w1), (_, w2) = v1, v2
    cases = []
    for seed, step, _j in (w1, w2):
        c = generate(seed, tier)
        if isinstance(step, int) and step >= 0:
            c["ops"] = c["ops"][: step + 1]
        cases.append(c)
    return {"pair": cases}


def trace_of(case):
    tables = {"d2h": {}, "h2d": {}, "m2h": {}}
    trace = []
    _run_single(case, tables, trace)
    return trace


def _execute_hashseeds(case):
    """Replay form of the interpreter-level fault: run the same history under two PYTHONHASHSEEDs."""
    outs = []
    for hs in case["hashseeds"]:
        env = dict(os.environ)
        env["PYTHONHASHSEED"] = str(hs)
        p = subprocess.run([os.path.join(ROOT, "check"), "--c07-trace", json.dumps(case["inner"])],
                           env=env, capture_output=True, text=True, timeout=600)
        outs.append([l for l in p.stdout.splitlines() if l.startswith("TRACE ")])
    if outs[0] != outs[1]:
        return {"violation": {"sig": "C07/hashseed-dependent", "detail": {
            "hashseeds": case["hashseeds"], "first": short(outs[0], 300), "second": short(outs[1], 300)}},
            "digest": "violation", "stats": {}}
    return {"violation": None, "digest": digest(outs), "stats": {}}


def pre_batch(tier):
    """Interpreter-level fault: the same seeds in two fresh interpreters with different PYTHONHASHSEED
    (string labels, string metadata keys) must log the same hashes event by event."""
    n = 24 if tier == "quick" else 200
    outs = []
    for hs in ("0", "12345"):
        env = dict(os.environ)
        env["PYTHONHASHSEED"] = hs
        p = subprocess.run([os.path.join(ROOT, "check"), "--c07-traces", str(n), tier],
                           env=env, capture_output=True, text=True, timeout=1800)
        outs.append([l for l in p.stdout.splitlines() if l.startswith("TRACE ")])
    viol = []
    if len(outs[0]) != n or len(outs[1]) != n:
        from ..core import HarnessError

        raise HarnessError("hash-seed traces incomplete: %d / %d of %d" % (len(outs[0]), len(outs[1]), n))
    for i in range(n):
        if outs[0][i] != outs[1][i]:
            from ..core import run_seed

            seed = run_seed("C07", 20_000_000 + i)
            case = {"hashseeds": [0, 12345], "inner": generate(seed, tier)}
            viol.append((i, seed, case, {"sig": "C07/hashseed-dependent", "detail": {"run": i}}))
            break
    return {"hashseed_pairs_compared": n, "violations": viol}
