"""C19 - filters (partly).  C19a: filter_hypergraph as a history operation on all four
containers (Engine H, refinement).  C19b (get_svh under a scheduled pool) lives in C19b.py
and is dispatched from here by case type."""
import random

from .. import hist
from ..core import Violation
from . import _refine

KINDS = ["H", "D", "T", "M"]
LEVEL = "exploration"
COMPONENTS = dict(_refine.COMPONENTS)
COMPONENTS["real"] = COMPONENTS["real"] + ["hypergraphx.filters.statistical_filters.get_svh (pandas, scipy.stats.binom)"]
COMPONENTS["stub"] = ["multiprocessing.Pool / cpu_count inside statistical_filters (SimPool: seeded execution order, chunking, worker count)"]
COMPONENTS["real_smoke"] = ["one get_svh(mp=True) call through the real multiprocessing.Pool per check"]
ASSUMPTIONS = list(_refine.ASSUMPTIONS) + [
    "criteria values are strings and integers >= 2 (None / True / 1 would make 'attribute missing' and 'attribute equal' indistinguishable)",
    "keep_edges=True corner cases (shrunk hyperedge becomes empty, merge of records with different metadata, directed) are not generated (DESIGN 4.5)",
]
RULE = ("C19b: 30% of the runs call get_svh on a hypergraph with positive integer weights, sequentially and with mp=True under a scheduled "
        "in-process pool (seeded execution order, chunking, worker count), and compare both tables with the binomial definition.  "
        "C19a: one run = one seeded history on one of the four containers in which filter_hypergraph(node_criteria, edge_criteria, mode, "
        "keep_edges) is one more mutating operation (criteria over the metadata vocabulary in use, attributes missing from some items, "
        "empty criteria); the reference model applies the statement literally and the history continues afterwards.  Non-trivial: >= 3 "
        "state-changing ops and >= 1 filter that removed something; distinct = event-log digests.")
TIERS = {"quick": {"runs": 4000, "wall_cap": 240, "det_seeds": 12, "min_tests": 500},
         "thorough": {"runs": 100000, "wall_cap": 3000, "det_seeds": 40, "min_tests": 1500}}


def generate(seed, tier):
    rng = random.Random(seed)
    if rng.random() < 0.3:
        from . import C19b

        return C19b.generate(rng, seed)
    kind = rng.choice(KINDS)
    cfg = hist.gen_config(rng, kind, tier, extra_ops=("filter",), extra_weight=5.0)
    cfg["md_density"] = rng.choice([0.3, 0.7, 0.9])
    cfg["length"] = min(cfg["length"], 50 if tier == "quick" else 120)
    ops, gstats = hist.generate_history(rng, cfg)
    return {"kind": kind, "weighted": cfg["weighted"], "universe": cfg["universe"], "seed": seed,
            "ambiguous_skipped": gstats["ambiguous_skipped"], "ops": ops}


def execute(case):
    if case.get("engine") == "svh":
        from . import C19b

        return C19b.execute(case)
    if case.get("engine") == "svh-realpool":
        from . import C19b

        v = C19b.real_pool_case(case)
        return {"violation": v, "digest": "realpool", "stats": {}}
    try:
        res, w = hist.run_world("C19", case, mode="refine")
    except Violation as v:
        return {"violation": {"sig": v.sig, "detail": v.detail}, "digest": "violation:" + v.sig, "stats": {},
                "sample": hist.sample_of(case)}
    res["sample"] = hist.sample_of(case)
    return res


def simplify(case):
    if case.get("engine") == "svh-realpool":
        return []
    if case.get("engine") == "svh":
        from . import C19b

        return C19b.simplify(case)
    return hist.simplify_ops(case)


def pre_batch(tier):
    from . import C19b
    from ..core import HarnessError

    from ..core import run_isolated

    viol = []
    for k in range(3):
        case = {"engine": "svh-realpool", "k": k}
        st, v = run_isolated(C19b.real_pool_case, case)
        if st != "ok":
            raise HarnessError("real multiprocessing.Pool smoke failed to run: " + str(v))
        if v:
            viol.append((-1, k, case, v))
            break
    return {"real_pool_smoke": "multiprocessing.Pool(2 and 3 workers): get_svh(mp=True) == get_svh(mp=False) on three inputs",
            "violations": viol}
