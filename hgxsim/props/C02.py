"""C02 - refinement of the D container against its reference model (Engine H)."""
from ._refine import make

globals().update(make("C02", "D"))
