"""Input generators shared by the Engine R properties."""
from ..core import sut, tag

STR_LABELS = ["u", "v", "w", "xx", "y", "zed", "k9", "m", "n0"]


def rand_hypergraph_spec(rng, nmin=3, nmax=8, emin=2, emax=10, smin=2, smax=5, labels=None, singletons=0.0):
    """{'nodes': [...], 'edges': [[...], ...]}: duplicate-free hyperedges over comparable labels."""
    n = rng.randint(nmin, nmax)
    # "mixnum" (ints beyond 2**53 next to floats) only where a caller asks for it: the label-to-index mapping of the
    # library (sklearn LabelEncoder, numpy arrays of labels) rounds such labels - see DESIGN 12.8, round 19
    lab = labels or rng.choice(["int", "int", "str", "bigint", "numstr"])
    if lab == "int":
        nodes = list(range(n))
    elif lab == "str":
        pool = STR_LABELS if n <= len(STR_LABELS) else STR_LABELS + ["q%02d" % i for i in range(40)]
        nodes = rng.sample(pool, n)
    elif lab == "numstr":
        pool = ["1", "2", "10", "9", "03", "21", "100", "11", "20"]
        if n > len(pool):
            pool = pool + [str(i) for i in range(30, 70)]
        nodes = rng.sample(pool, n)
    elif lab == "mixnum":
        pool = [0.5, 2.5, 2**60 + 1, 2**53 + 1, 3, -7.25, 10, 2**53 + 3, 6.75]
        if n > len(pool):
            pool = pool + [2**60 + 3 + 2 * i for i in range(40)]
        nodes = rng.sample(pool, n)
    else:
        pool = [-7, -1, 3, 10, 55, 10**9, 12, 77, 1000]
        if n > len(pool):
            pool = pool + [2000 + 7 * i for i in range(40)]
        nodes = rng.sample(pool, n)
    m = rng.randint(emin, emax)
    edges, seen = [], set()
    for _ in range(m * 4):
        if len(edges) >= m:
            break
        lo = 1 if rng.random() < singletons else smin
        k = rng.randint(lo, min(smax, n))
        e = rng.sample(nodes, k)
        if frozenset(e) not in seen:
            seen.add(frozenset(e))
            edges.append(e)
    spec = {"nodes": nodes, "edges": edges, "labels": lab}
    if rng.random() < 0.15:
        # the user replaces the hypergraph-level metadata after construction (it no longer says "weighted": ...)
        spec["hmeta"] = rng.choice([{}, {"name": "g"}, {"weighted": False, "note": 1}])
    return spec


def build_hypergraph(spec, weights=None, weighted=False):
    hx = sut()
    h = hx.Hypergraph(weighted=weighted)
    h.add_nodes(list(spec["nodes"]))
    for i, e in enumerate(spec["edges"]):
        if weighted:
            h.add_edge(tuple(e), weight=weights[i])
        else:
            h.add_edge(tuple(e))
    if spec.get("hmeta") is not None:
        import json

        h.set_hypergraph_metadata(json.loads(json.dumps(spec["hmeta"])))
    return h


def rand_directed_spec(rng, nmin=3, nmax=8, emin=2, emax=9):
    n = rng.randint(nmin, nmax)
    lab = rng.choice(["int", "int", "str"])
    nodes = list(range(n)) if lab == "int" else rng.sample(STR_LABELS, n)
    m = rng.randint(emin, emax)
    edges, seen = [], set()
    for _ in range(m * 4):
        if len(edges) >= m:
            break
        k = rng.randint(2, min(5, n))
        ns = rng.sample(nodes, k)
        cut = rng.randint(1, k - 1)
        key = (frozenset(ns[:cut]), frozenset(ns[cut:]))
        if key not in seen:
            seen.add(key)
            edges.append([ns[:cut], ns[cut:]])
    return {"nodes": nodes, "edges": edges, "labels": lab}


def build_directed(spec):
    hx = sut()
    h = hx.DirectedHypergraph()
    h.add_nodes(list(spec["nodes"]))
    for s, t in spec["edges"]:
        h.add_edge((tuple(s), tuple(t)))
    return h
