"""C04 - refinement of the M container against its reference model (Engine H)."""
from ._refine import make

globals().update(make("C04", "M"))
