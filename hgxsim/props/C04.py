"""C04 - MultiplexHypergraph: refinement + aggregation and overlap (Engine H)."""
from .. import hist
from ..core import Violation, short, tag
from ..models import Model
from ._refine import make


def propose(g, model, name):
    if name in ("d_aggregated", "d_overlap"):
        return {"op": name}
    return None


def h_aggregated(w, a, op):
    obj, model = w.actors[a]
    try:
        res = obj.aggregated_hypergraph()
    except Exception as e:  # noqa
        raise Violation("C04/derive/aggregated/raised", {"op": op, "exception": repr(e)})
    exp = Model("H", model.weighted)
    for n in model.nodes:
        exp.nodes[n] = {}
    for (ns, layer), (wt, md) in sorted(model.edges.items(), key=lambda kv: (sorted(tag(x) for x in kv[0][0]), tag(kv[0][1]))):
        if ns in exp.edges:
            if model.weighted:
                exp.edges[ns][0] = exp.edges[ns][0] + wt
            w.probe("aggregated_multi_layer_node_set")
        else:
            exp.edges[ns] = [wt if model.weighted else 1, {}]
    hist.compare_derived("C04", "aggregated", "H", res, exp, w.U)
    return len(exp.edges)


def h_overlap(w, a, op):
    from hypergraphx.measures.multiplex import edge_overlap

    obj, model = w.actors[a]
    sets = sorted({ns for (ns, layer) in model.edges}, key=lambda s: sorted(tag(x) for x in s))
    absent = None
    for key in w.probe_keys:
        if key[0] not in sets:
            absent = key[0]
            break
    n = 0
    for ns in sets + ([absent] if absent is not None else []):
        want = 0
        for (ns2, layer), (wt, md) in model.edges.items():
            if ns2 == ns:
                want = want + wt
        arg = w_rng_perm(ns)
        try:
            got = edge_overlap(obj, arg)
        except Exception as e:  # noqa
            raise Violation("C04/derive/overlap/raised", {"edge": short(arg), "exception": repr(e)})
        if got != want:
            raise Violation("C04/derive/overlap/value", {"edge": short(arg), "library": got, "expected": want})
        n += 1
    w.probe("overlap_queries", n)
    return n


def w_rng_perm(ns):
    # reversed sorted order: "the order in which nodes are listed is irrelevant"
    return tuple(sorted(ns, key=tag, reverse=True))


globals().update(make("C04", "M", extra_ops=("d_aggregated", "d_overlap"), extra_propose=propose,
                      handlers={"d_aggregated": h_aggregated, "d_overlap": h_overlap}))
