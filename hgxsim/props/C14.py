"""C14 - random generators honour their structural contracts and their seeds (Engine R)."""
import contextlib
import io
import json
import math
import random

from .. import observe as O
from ..core import Violation, derive, digest, short, sut, tag
from ..rngsim import DrawBudgetExceeded, Facade
from . import _gen

LEVEL = "exploration"
COMPONENTS = {
    "real": ["hypergraphx.generation.random (random_hypergraph, random_uniform_hypergraph, random_shuffle, random_shuffle_all_orders, add_random_edge(s))",
             "hypergraphx.generation.scale_free.scale_free_hypergraph", "hypergraphx.generation.activity_driven.HOADmodel",
             "Hypergraph / TemporalHypergraph", "scipy.stats.spearmanr"],
    "stub": ["front-ends random.* and numpy.random.* (Facade: private seeded generators, draw log, legal-but-rare substitutions)"],
    "simulator_owned": ["every draw of the generators", "the global PRNG state between two same-seed calls ('somebody else drew' fault)",
                        "forced repeated samples (de-duplication and waiting loops)"],
}
ASSUMPTIONS = [
    "requested counts <= half the number of possible hyperedges of that size, so waiting loops are short under fair draws",
    "shuffle inputs are unweighted and metadata-free (what the functions document)",
    "same-seed equality is claimed (and checked) for random_hypergraph / random_uniform_hypergraph only, as in the statement",
]
RULE = ("one run = one generator call family with parameters from the seed: contracts of the returned object checked exactly as stated; "
        "same-seed calls are repeated with the global PRNG state perturbed and another generator run in between.  Non-trivial: the call "
        "drew >= 3 random values and >= 1 adversarial draw or perturbation happened; distinct = draw-trace digests.")
TIERS = {"quick": {"runs": 24000, "wall_cap": 240, "det_seeds": 12, "min_tests": 300},
         "thorough": {"runs": 100000, "wall_cap": 3000, "det_seeds": 40, "min_tests": 1000}}
FAMILIES = ["random_hypergraph", "random_uniform", "scale_free", "hoad", "add_random_edge", "add_random_edges",
            "shuffle", "shuffle_all"]


def _counts(rng, n, tier):
    by_size = {}
    for s in rng.sample([1, 2, 3, 4, 5], rng.randint(1, 3)):
        if s <= n:
            cap = max(1, math.comb(n, s) // 2)
            by_size[s] = rng.randint(0 if rng.random() < 0.1 else 1, min(cap, 8))
    return by_size or {2: 1}


def generate(seed, tier):
    rng = random.Random(seed)
    fam = rng.choice(FAMILIES)
    case = {"family": fam, "seed": seed, "q": rng.choice([0.0, 0.05, 0.3])}
    n = rng.randint(3, 9) if rng.random() < 0.9 else rng.randint(12, 40)
    if fam == "random_hypergraph":
        case.update(n=n, by_size=[[s, c] for s, c in sorted(_counts(rng, n, tier).items())], sut_seed=rng.choice([0, 0, 1, rng.randint(0, 10**6), rng.randint(0, 10**6), rng.randint(0, 10**6), rng.randint(0, 10**6)]))
    elif fam == "random_uniform":
        s = rng.randint(1, min(5, n))
        case.update(n=n, size=s, count=rng.randint(1, max(1, min(8, math.comb(n, s) // 2))), sut_seed=rng.choice([0, 0, 1, rng.randint(0, 10**6), rng.randint(0, 10**6), rng.randint(0, 10**6), rng.randint(0, 10**6)]))
    elif fam == "scale_free":
        n = rng.randint(4, 9)
        by = {s: c for s, c in _counts(rng, n, tier).items() if s >= 2} or {2: 2}
        case.update(n=n, by_size=[[s, c] for s, c in sorted(by.items())],
                    scale=[[s, rng.choice([0.5, 1.0, 2.0, 5.0])] for s in sorted(by)],
                    correlated=rng.random() < 0.7, defaults=rng.random() < 0.35)
        if not case["defaults"] and case["correlated"]:
            x = rng.random()
            if x < 0.4:
                case["corr_target"] = rng.choice([0.0, 0.3, 0.8, 1.0])
            elif x < 0.7:
                case["num_shuffles"] = rng.randint(0, 5)
                if case["num_shuffles"] == 0 and rng.random() < 0.5:
                    case["corr_target"] = 1.0
    elif fam == "hoad":
        N = rng.randint(3, 8)
        orders = rng.sample([1, 2, 3], rng.randint(1, 2))
        orders = [o for o in orders if o < N] or [1]
        case.update(N=N, time=rng.choice([rng.randint(1, 8)] * 6 + [100, 1001, 1500, 2300]),
                    acts=[[o, [round(rng.random() * rng.choice([0.2, 0.6, 1.0]), 3) for _ in range(N)]] for o in orders])
        if rng.random() < 0.12:
            # an activity table made for a larger system: the model is about the first N nodes ("nodes below N")
            extra = rng.randint(1, N + 2)
            case["acts"] = [[o, v + [round(rng.random(), 3) for _ in range(extra)]] for o, v in case["acts"]]
        if case["time"] > 50:
            # long horizons: keep the activity low so that the event list stays small
            case["acts"] = [[o, [round(a * 0.02, 5) for a in v]] for o, v in case["acts"]]
    elif fam in ("add_random_edge", "add_random_edges"):
        spec = _gen.rand_hypergraph_spec(rng, emin=0, emax=5, singletons=0.2)
        nn = len(spec["nodes"])
        size = rng.randint(1, min(4, nn))
        case.update(spec=spec, by=rng.choice(["size", "order"]), size=size, inplace=rng.random() < 0.5,
                    sut_seed=rng.choice([None, rng.randint(0, 999)]))
        if fam == "add_random_edges":
            case["count"] = rng.randint(0, max(1, min(4, math.comb(nn, size) // 2)))
    else:
        spec = _gen.rand_hypergraph_spec(rng, emin=2, emax=9, singletons=0.1)
        sizes = sorted({len(e) for e in spec["edges"]})
        case.update(spec=spec, p=rng.choice([0.0, 0.0, 0.3, 0.5, 1.0, rng.random()]), inplace=rng.random() < 0.5,
                    preserve_degree=rng.random() < 0.5, sut_seed=rng.choice([None, rng.randint(0, 999)]))
        if fam == "shuffle":
            case["by"] = rng.choice(["size", "order"])
            case["size"] = rng.choice(sizes + [6])
    return case


def _nt(x):
    """tag of a label with numpy scalars normalised (np.int64(3) == 3 and hashes alike: the same node)."""
    import numpy as np

    return tag(x.item() if isinstance(x, np.generic) else x)


def _edges(h):
    return sorted(sorted(map(_nt, e)) for e in h.get_edges())


def _obs(h):
    return digest(O.observe("H", h, [], []))


def _check_random(h, n, by_size, what):
    nodes = h.get_nodes()
    if sorted(map(tag, nodes)) != sorted(map(tag, range(n))):
        raise Violation(f"C14/{what}/node-set", {"nodes": short(nodes), "n": n})
    per = {}
    for e in h.get_edges():
        if len(set(e)) != len(e):
            raise Violation(f"C14/{what}/repeated-node", {"edge": short(e)})
        if any(type(x) is bool or x not in range(n) for x in e):
            raise Violation(f"C14/{what}/foreign-node", {"edge": short(e)})
        per[len(e)] = per.get(len(e), 0) + 1
    for s, c in per.items():
        if s not in by_size:
            raise Violation(f"C14/{what}/unrequested-size", {"size": s, "requested": by_size})
        if c > by_size[s]:
            raise Violation(f"C14/{what}/too-many", {"size": s, "count": c, "requested": by_size[s]})
    for s, c in by_size.items():
        if c >= 1 and per.get(s, 0) < 1:
            raise Violation(f"C14/{what}/none-produced", {"size": s, "requested": c})
    if h.is_weighted():
        raise Violation(f"C14/{what}/weighted", {})


def execute(case):
    sut()
    fac = Facade(case["seed"], q=case["q"], budget=200000)
    info = {"perturbations": 0}
    try:
        with fac, contextlib.redirect_stdout(io.StringIO()):
            _dispatch(case, fac, info)
    except Violation as v:
        return {"violation": {"sig": v.sig, "detail": v.detail}, "digest": "violation:" + v.sig, "stats": {},
                "sample": {"case": case}}
    except DrawBudgetExceeded as e:
        return {"violation": {"sig": f"C14/{case['family']}/liveness-draw-budget", "detail": {"why": str(e)}},
                "digest": "violation:liveness", "stats": {}, "sample": {"case": case}}
    st = fac.stats()
    over = sum(st["overrides"].values())
    return {"violation": None, "digest": digest([case["family"], fac.digest()]),
            "stats": {"c14": {"calls_" + case["family"]: 1, "perturbations": info["perturbations"], "exact_pool_checks": info.get("exact_pool_checks", 0)},
                      "faults": st["overrides"], "draws": st["draws"]},
            "nontrivial": sum(st["draws"].values()) >= 3 and (over >= 1 or info["perturbations"] >= 1),
            "sample": {"case": case, "draw_trace_head": fac.head}}


def _call(what, f, *a, **kw):
    try:
        return f(*a, **kw)
    except DrawBudgetExceeded:
        raise
    except Exception as e:  # noqa
        raise Violation(f"C14/{what}/raised", {"exception": repr(e), "args": short((a, kw), 300)})


def _dispatch(case, fac, info):
    from hypergraphx.generation import random as G

    fam = case["family"]
    if fam in ("random_hypergraph", "random_uniform"):
        if fam == "random_hypergraph":
            by = {s: c for s, c in case["by_size"]}
            arg = dict(by)  # the caller's own dict: the same object goes to both calls
            f = lambda: G.random_hypergraph(case["n"], arg, seed=case["sut_seed"])  # noqa
        else:
            by = {case["size"]: case["count"]}
            f = lambda: G.random_uniform_hypergraph(case["n"], case["size"], case["count"], seed=case["sut_seed"])  # noqa
        h1 = _call(fam, f)
        _check_random(h1, case["n"], by, fam)
        # the "somebody else drew" fault: perturb the global streams, run another generator in between
        fac.perturb(5)
        G.random_hypergraph(4, {2: 2})
        info["perturbations"] += 1
        h2 = _call(fam, f)
        _check_random(h2, case["n"], by, fam)
        if _edges(h1) != _edges(h2) or _obs(h1) != _obs(h2):
            raise Violation(f"C14/{fam}/same-seed-different-output", {"first": short(_edges(h1), 300), "second": short(_edges(h2), 300)})
        if fam == "random_hypergraph" and arg != by:
            raise Violation(f"C14/{fam}/argument-modified", {"passed": short(by), "after": short(arg)})
        if fac.sut_seed_calls < 2:
            # equal although the code never re-seeded: cannot happen with a perturbed stream unless the outputs are forced
            pass
    elif fam == "scale_free":
        from hypergraphx.generation.scale_free import scale_free_hypergraph

        by = {s: c for s, c in case["by_size"]}
        sc = {s: v for s, v in case["scale"]}
        if case["seed"] % 2:
            sc = {s: sc[s] for s in reversed(list(sc))}  # the two dicts need not list the sizes in the same order
        kw = {}
        if not case["defaults"]:
            kw["correlated"] = case["correlated"]
            if case.get("corr_target") is not None:
                kw["corr_target"] = case["corr_target"]
            if "num_shuffles" in case:
                kw["num_shuffles"] = case["num_shuffles"]
            if not case["correlated"]:
                kw.pop("corr_target", None)
                kw.pop("num_shuffles", None)
        what = "scale_free[defaults]" if not kw else "scale_free"
        # the caller's own dicts: they must come back unchanged, and a second call with the very same objects
        # (another sample from the same configuration) is held to the same contract
        a_by, a_sc = dict(by), dict(sc)
        h = _call(what, scale_free_hypergraph, case["n"], a_by, a_sc, **kw)
        if a_by != by or a_sc != sc:
            raise Violation(f"C14/{what}/argument-modified", {"edges_by_size": [short(by), short(a_by)], "scale_by_size": [short(sc), short(a_sc)]})
        if case["seed"] % 3 == 0:
            h = _call(what, scale_free_hypergraph, case["n"], a_by, a_sc, **kw)
            info["second_sample_same_arguments"] = 1
        if h.num_nodes() != case["n"]:
            raise Violation(f"C14/{what}/node-count", {"nodes": h.num_nodes(), "n": case["n"]})
        per = {}
        seen = set()
        for e in h.get_edges():
            if len(set(e)) != len(e):
                raise Violation(f"C14/{what}/repeated-node", {"edge": short(e)})
            k = frozenset(e)
            if k in seen:
                raise Violation(f"C14/{what}/repeated-hyperedge", {"edge": short(e)})
            seen.add(k)
            per[len(e)] = per.get(len(e), 0) + 1
        want = {s: c for s, c in by.items() if c > 0}
        if per != want:
            raise Violation(f"C14/{what}/count-per-size", {"got": per, "requested": want})
    elif fam == "hoad":
        from hypergraphx.generation.activity_driven import HOADmodel

        acts = {o: list(v) for o, v in case["acts"]}
        hg = _call("hoad", HOADmodel, case["N"], acts, case["time"])
        if acts != {o: list(v) for o, v in case["acts"]}:
            raise Violation("C14/hoad/argument-modified", {"after": short(acts, 300)})
        orders = set(acts)
        for t, e in hg.get_edges():
            if len(e) - 1 not in orders:
                raise Violation("C14/hoad/size", {"edge": short(e), "orders": sorted(orders)})
            if len(set(e)) != len(e):
                raise Violation("C14/hoad/repeated-node", {"edge": short(e)})
            if any(not (0 <= x < case["N"]) for x in e):
                raise Violation("C14/hoad/node-range", {"edge": short(e), "N": case["N"]})
            if not (0 <= t < case["time"]):
                raise Violation("C14/hoad/time-range", {"t": t, "time": case["time"]})
    elif fam in ("add_random_edge", "add_random_edges"):
        h = _gen.build_hypergraph(case["spec"])
        before_edges = _edges(h)
        before_nodes = sorted(map(_nt, h.get_nodes()))
        before_obs = _obs(h)
        size = case["size"]
        kw = {"inplace": case["inplace"]}
        kw["size" if case["by"] == "size" else "order"] = size if case["by"] == "size" else size - 1
        if case["sut_seed"] is not None:
            kw["seed"] = case["sut_seed"]
        if fam == "add_random_edge":
            res = _call(fam, G.add_random_edge, h, **kw)
            maxnew = 1
        else:
            res = _call(fam, G.add_random_edges, h, case["count"], **kw)
            maxnew = case["count"]
        out = h if case["inplace"] else res
        if not case["inplace"]:
            if _obs(h) != before_obs:
                raise Violation(f"C14/{fam}/argument-modified", {})
            if out is None:
                raise Violation(f"C14/{fam}/returned-none", {})
        after = _edges(out)
        new = [e for e in after if e not in before_edges]
        if any(e not in after for e in before_edges):
            raise Violation(f"C14/{fam}/existing-hyperedge-lost", {"before": short(before_edges), "after": short(after)})
        if sorted(map(_nt, out.get_nodes())) != before_nodes:
            raise Violation(f"C14/{fam}/node-set-changed", {})
        if len(new) > maxnew:
            raise Violation(f"C14/{fam}/too-many-new", {"new": short(new)})
        for e in new:
            if len(e) != size or len(set(e)) != len(e):
                raise Violation(f"C14/{fam}/new-hyperedge-shape", {"edge": short(e), "size": size})
        if fam == "add_random_edges" and len(after) < len(set(map(tuple, before_edges))):
            raise Violation(f"C14/{fam}/lost", {})
    else:
        h = _gen.build_hypergraph(case["spec"])
        before_edges = _edges(h)
        before_nodes = sorted(map(_nt, h.get_nodes()))
        before_obs = _obs(h)
        kw = {"p": case["p"], "inplace": case["inplace"], "preserve_degree": case["preserve_degree"]}
        if case["sut_seed"] is not None:
            kw["seed"] = case["sut_seed"]
        if fam == "shuffle":
            kw["size" if case["by"] == "size" else "order"] = case["size"] if case["by"] == "size" else case["size"] - 1
            listed = [tuple(e) for e in h.get_edges(size=case["size"])]  # the order the function will see
            n_before = len(fac.samples_served)
            res = _call(fam, G.random_shuffle, h, **kw)
            sizes = [case["size"]]
            # the simulator served the draw that selects which hyperedges are rewired: the pool is known exactly
            sel = [r for (site, npop, r) in fac.samples_served[n_before:] if npop == len(listed) and site and "generation.random" in site]
            if sel and all(isinstance(i, int) and 0 <= i < len(listed) for i in sel[0]):
                chosen = set(sel[0])
                pool_exact = {_nt(n) for i in chosen for n in listed[i]}
                kept = [sorted(map(_nt, listed[i])) for i in range(len(listed)) if i not in chosen]
                out0 = h if case["inplace"] else res
                if out0 is not None:
                    remaining = list(kept)
                    for e in _edges(out0):
                        if len(e) != case["size"]:
                            continue
                        if e in remaining:
                            remaining.remove(e)
                            continue
                        if any(n not in pool_exact for n in e):
                            raise Violation("C14/shuffle/node-outside-rewired-hyperedges", {
                                "edge": short(e), "rewired": short([listed[i] for i in sorted(chosen)]), "p": case["p"],
                                "preserve_degree": case["preserve_degree"]})
                info["exact_pool_checks"] = info.get("exact_pool_checks", 0) + 1
        else:
            res = _call(fam, G.random_shuffle_all_orders, h, **kw)
            sizes = sorted({len(e) for e in before_edges})
        out = h if case["inplace"] else res
        if not case["inplace"]:
            if _obs(h) != before_obs:
                raise Violation(f"C14/{fam}/argument-modified", {"p": case["p"]})
            if out is None:
                raise Violation(f"C14/{fam}/returned-none", {})
        after = _edges(out)
        ctx = {"p": case["p"], "before": short(before_edges, 300), "after": short(after, 300)}
        if sorted(map(_nt, out.get_nodes())) != before_nodes:
            raise Violation(f"C14/{fam}/node-set-changed", ctx)
        if [e for e in before_edges if len(e) not in sizes] != [e for e in after if len(e) not in sizes]:
            raise Violation(f"C14/{fam}/other-sizes-changed", ctx)
        for e in after:
            if len(set(e)) != len(e):
                raise Violation(f"C14/{fam}/repeated-node", ctx)
        for s in sizes:
            old = [e for e in before_edges if len(e) == s]
            new = [e for e in after if len(e) == s]
            if len(new) > len(old):
                raise Violation(f"C14/{fam}/more-hyperedges", {"size": s, **ctx})
            # replacement nodes only from the rewired hyperedges: every node of a new hyperedge of this size
            # must occur in some old hyperedge of this size
            pool = {n for e in old for n in e}
            for e in new:
                if e not in old and any(n not in pool for n in e):
                    raise Violation(f"C14/{fam}/node-outside-pool", {"size": s, "edge": short(e), **ctx})
            kept = int(len(old) - int(case["p"] * len(old)))
            if sum(1 for e in new if e in old) < min(kept, len(set(map(tuple, old)))) - 0 and fam == "shuffle":
                raise Violation(f"C14/{fam}/too-many-rewired", {"size": s, "kept_expected_at_least": kept, **ctx})
        if case["p"] == 0 and (after != before_edges or _obs(out) != before_obs):
            raise Violation(f"C14/{fam}/p0-changed", ctx)


def simplify(case):
    c = json.loads(json.dumps(case))
    if case.get("q", 0) > 0:
        c2 = dict(c)
        c2["q"] = 0.0
        yield c2
    if "spec" in case:
        for i in range(len(case["spec"]["edges"])):
            c2 = json.loads(json.dumps(c))
            del c2["spec"]["edges"][i]
            yield c2
    if "by_size" in case and len(case["by_size"]) > 1:
        for i in range(len(case["by_size"])):
            c2 = json.loads(json.dumps(c))
            del c2["by_size"][i]
            if "scale" in c2:
                del c2["scale"][i]
            yield c2


def sim_time(stats):
    return {"unit": "random draws served to the generators (logical steps)", "value": sum(stats.get("draws", {}).values())}
