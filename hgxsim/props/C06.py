"""C06 - save/load round trip under a simulated file device (Engine H + Engine F)."""
import contextlib
import errno
import io
import json
import random

from .. import hist
from .. import observe as O
from ..core import Ambiguous, HarnessError, Violation, derive, digest, short, sut, tag
from ..simfs import FaultPlan, SimFS

LEVEL = "fault_enumeration"
COMPONENTS = {
    "real": ["hypergraphx.readwrite.save / load / hif", "expose_data_structures / populate_from_dict of the four containers",
             "io.TextIOWrapper, io.BufferedWriter, io.BufferedReader (the real buffering stack)", "json, pickle",
             "all container mutators (they drive the histories)"],
    "stub": ["raw file device (SimRaw: write-through to a scratch file, injects ENOSPC/EIO at byte offsets, short raw reads/writes, failing open/close)"],
    "simulator_owned": ["builtins.open / io.open for paths under the run's scratch root", "buffer size, raw short reads/writes",
                        "fault kind and byte offset (enumerated per saved object)", "operation order of the driving history, restart = load from durable bytes"],
}
ASSUMPTIONS = [
    "verdicts are taken against the saved object's own public observation (a C01-C04 defect cannot surface as C06)",
    "hyperedge metadata compared modulo the reserved keys weight/time/layer (property statement)",
    "a save that raises promises nothing about the file; a load that raises is fine; loading a torn file is a probe only",
    "fault offsets: every byte offset up to the stride-1 limit (600 quick / 4096 thorough), stride 7 beyond",
    "post-load lock-step (original and loaded object driven by identical operations must stay equal) is slightly more than the statement's letter; it has its own signature C06/post-load-divergence",
    ".hgr and HIF documents are generated from a small document model and read through the same simulated device",
]
RULE = ("one run = one seeded history on one of the four containers with d_roundtrip steps (fault-free save+load in one format, twin kept and "
        "driven in lock step) and d_faults steps (every write-fault offset x {ENOSPC,EIO}, close failure, open failures, every read-fault "
        "offset, retry on a healthy device), or one generated .hgr / HIF document read under read faults.  Non-trivial: the saved object had "
        ">= 2 hyperedges and >= 1 injected fault fired or >= 1 removal preceded the save; distinct = event-log digests.")
TIERS = {"quick": {"runs": 1600, "wall_cap": 240, "det_seeds": 10, "min_tests": 300, "round": 1600},
         "thorough": {"runs": 40000, "wall_cap": 3000, "det_seeds": 30, "min_tests": 1000}}
RESERVED = ("weight", "time", "layer")
MD_OBS = ("edges_md", "edge_md")


def propose(g, model, name):
    r = g.rng
    base = {"op": name, "fmt": r.choice(["json", "hgx"]), "bufsize": r.choice([1, 7, 64, 8192]),
            "short": r.choice([0, 0, 1, 3])}
    if name == "d_roundtrip":
        base["overwrite"] = r.random() < 0.3
        # the process has a past: an earlier save of ANOTHER object failed part-way (a metadata value no format can take)
        base["failed_save_before"] = r.choice([None, None, None, "json", "json", "hgx"])
        # a third of the round trips use one fixed stem and leave their file behind: the directory then holds an OLDER
        # save of the other format next to the file being written and read (data.hgx next to data.json)
        base["shared_stem"] = r.random() < 0.33
    if name == "d_faults":
        base["stride1"] = 600
    return base


def generate(seed, tier):
    rng = random.Random(seed)
    x = rng.random()
    if x < 0.12:
        return gen_hgr(rng, seed)
    if x < 0.24:
        return gen_hif(rng, seed)
    kind = rng.choice(["H", "D", "T", "M"])
    cfg = hist.gen_config(rng, kind, tier, extra_ops=("d_roundtrip", "d_faults"), extra_weight=1.0)
    cfg["opw"]["d_roundtrip"] = 4.0
    cfg["opw"]["d_faults"] = 0.5
    cfg["reject_rate"] = min(cfg["reject_rate"], 0.1)
    cfg["length"] = min(cfg["length"], 30 if tier == "quick" else 60)
    ops, gstats = hist.generate_history(rng, cfg, extra_propose=propose)
    if tier == "thorough":
        for op in ops:
            if op["op"] == "d_faults":
                op["stride1"] = 4096
    # at most two fault enumerations per run (they dominate the cost)
    seen = 0
    out = []
    for op in ops:
        if op["op"] == "d_faults":
            seen += 1
            if seen > 2:
                continue
        out.append(op)
    return {"kind": kind, "weighted": cfg["weighted"], "universe": cfg["universe"], "seed": seed, "ops": out}


# ------------------------------------------------------------------ observation
def strip_reserved(obs):
    out = dict(obs)
    for key in MD_OBS:
        if key in out and isinstance(out[key], dict):
            d = {}
            for e, m in out[key].items():
                try:
                    md = json.loads(m)
                    if isinstance(md, dict):
                        md = {k: v for k, v in md.items() if k not in RESERVED}
                    d[e] = json.dumps(md, sort_keys=True)
                except Exception:
                    d[e] = m
            out[key] = d
    if "all_edges_md" in out and isinstance(out["all_edges_md"], list):
        lst = []
        for m in out["all_edges_md"]:
            try:
                md = json.loads(m)
                if isinstance(md, dict):
                    md = {k: v for k, v in md.items() if k not in RESERVED}
                lst.append(json.dumps(md, sort_keys=True))
            except Exception:
                lst.append(m)
        out["all_edges_md"] = sorted(lst)
    return out


def obs_of(kind, obj, w):
    o = O.observe(kind, obj, w.U, w.probe_keys)
    layers = o.pop("layers", None)  # "layers seen" may legitimately shrink to "layers in use" (C04's reading) ...
    if kind == "M":
        # ... but every layer that holds a record must be listed as existing, before and after a round trip
        try:
            used = {tag(e[1]) for e in obj.get_edges()}
            o["layers_in_use_not_listed"] = sorted(used - set(layers)) if isinstance(layers, list) else repr(layers)
        except Exception as e:  # noqa
            o["layers_in_use_not_listed"] = "!" + type(e).__name__
    o["__type"] = type(obj).__name__
    return o


def quiet(f, *a, **kw):
    with contextlib.redirect_stdout(io.StringIO()):
        return f(*a, **kw)


def save(obj, path, fmt):
    from hypergraphx.readwrite import save_hypergraph

    quiet(save_hypergraph, obj, path, binary=(fmt == "hgx"))


def load(path):
    from hypergraphx.readwrite import load_hypergraph

    return quiet(load_hypergraph, path)


def diff_obs(a, b):
    from ..core import first_diff

    d = first_diff(a, b)
    if not d:
        return None
    path, x, y = d
    return path.strip("/").split("/")[0], path, short(x, 300), short(y, 300)


# -------------------------------------------------------------------- handlers
class Ctx:
    def __init__(self):
        self.fs = SimFS()
        self.twins = {}  # actor index -> list of [obj, fmt]
        self.stats = {"roundtrips": 0, "fault_plans": 0, "saves_acked_under_fault": 0, "saves_failed": 0,
                      "loads_ok_under_fault": 0, "loads_failed": 0, "torn_load_raised": 0, "torn_load_returned": 0,
                      "lockstep_steps": 0, "bytes_saved": 0, "saved_after_removal": 0, "overwrite_longer": 0,
                      "retry_ok": 0}
        self.n = 0


def make_handlers(ctx):
    fs = ctx.fs

    def roundtrip(w, a, op):
        obj, model = w.actors[a]
        kind = w.kind
        fmt = op["fmt"]
        try:
            before = obs_of(kind, obj, w)
        except Exception:
            return "unobservable"
        ctx.n += 1
        name = f"obj{ctx.n}.{fmt}" if not op.get("shared_stem") else f"data.{fmt}"
        path = fs.path(name)
        if op.get("overwrite"):
            fs.put(name, b"[\n" + b'{"junk":"' + b"x" * 9000 + b'"}\n]')
            ctx.stats["overwrite_longer"] += 1
        fs.set_plan(FaultPlan(None, bufsize=op["bufsize"], short_write=op["short"], short_read=op["short"]))
        if op.get("failed_save_before"):
            hx = sut()
            ghost = hx.Hypergraph(weighted=True)
            ghost.add_edge(("ghost1", "ghost2"), weight=5, metadata={"fine": 1})
            ghost.add_edge(("ghost2", "ghost3"), weight=2, metadata={"bad": {1, 2}, "worse": (lambda: 0)})
            ghost.add_node("ghost4", metadata={"bad": object()})
            try:
                save(ghost, fs.path(f"ghost{ctx.n}.{op['failed_save_before']}"), op["failed_save_before"])
            except Exception:  # noqa: expected - the content is outside what the formats can store
                ctx.stats["failed_saves_of_another_object_before"] = ctx.stats.get("failed_saves_of_another_object_before", 0) + 1
            fs.remove(f"ghost{ctx.n}.{op['failed_save_before']}")
        try:
            save(obj, path, fmt)
        except Exception as e:  # noqa
            raise Violation(f"C06/{fmt}/save-raised", {"kind": kind, "exception": repr(e)})
        after = obs_of(kind, obj, w)
        d = diff_obs(after, before)
        if d:
            raise Violation(f"C06/{fmt}/save-modified-object/{d[0]}", {"kind": kind, "observable": d[1], "after": d[2], "before": d[3]})
        try:
            new = load(path)
        except Exception as e:  # noqa
            raise Violation(f"C06/{fmt}/load-raised", {"kind": kind, "exception": repr(e),
                                                       "file": short(fs.durable(name), 400)})
        if new is None:
            raise Violation(f"C06/{fmt}/load-returned-none", {"kind": kind, "file": short(fs.durable(name), 400)})
        got = strip_reserved(obs_of(kind, new, w))
        d = diff_obs(got, strip_reserved(before))
        if d:
            raise Violation(f"C06/{fmt}/roundtrip/{d[0]}", {"kind": kind, "observable": d[1], "loaded": d[2], "saved": d[3]})
        # second generation: an object that itself came out of a load (and was driven in lock step since, weight and
        # metadata updates included) must round-trip as faithfully as any other
        for twin, tfmt in ctx.twins.get(a, [])[:1]:
            name2 = f"gen2-{ctx.n}.{fmt}"
            try:
                tb = strip_reserved(obs_of(kind, twin, w))
                save(twin, fs.path(name2), fmt)
                again = strip_reserved(obs_of(kind, load(fs.path(name2)), w))
            except Exception as e:  # noqa
                raise Violation(f"C06/{fmt}/second-generation/raised", {"kind": kind, "first_format": tfmt, "exception": repr(e)})
            d = diff_obs(again, tb)
            if d:
                raise Violation(f"C06/{fmt}/second-generation/{d[0]}", {"kind": kind, "first_format": tfmt, "observable": d[1],
                                                                        "loaded": d[2], "saved": d[3]})
            ctx.stats["second_generation_roundtrips"] = ctx.stats.get("second_generation_roundtrips", 0) + 1
            fs.remove(name2)
        ctx.stats["roundtrips"] += 1
        ctx.stats["bytes_saved"] += len(fs.durable(name) or b"")
        if any(k.startswith("remove") and k.endswith(":ok") for k in w.stats["outcomes"]):
            ctx.stats["saved_after_removal"] += 1
        if len(ctx.twins.get(a, [])) < 2:
            ctx.twins.setdefault(a, []).append([new, fmt])
        if not op.get("shared_stem"):
            fs.remove(name)
        else:
            ctx.stats["files_left_behind"] = ctx.stats.get("files_left_behind", 0) + 1
        return fmt

    def faults(w, a, op):
        obj, model = w.actors[a]
        kind = w.kind
        fmt = op["fmt"]
        try:
            before = obs_of(kind, obj, w)
        except Exception:
            return "unobservable"
        want = strip_reserved(before)
        ctx.n += 1
        name = f"flt{ctx.n}.{fmt}"
        path = fs.path(name)
        base = dict(bufsize=op["bufsize"], short_write=op["short"], short_read=op["short"])
        fs.set_plan(FaultPlan(None, **base))
        try:
            save(obj, path, fmt)
            good = fs.durable(name)
            ok = diff_obs(strip_reserved(obs_of(kind, load(path), w)), want) is None
        except Exception:
            ok = False
        if not ok:
            return "fault-free round trip fails (reported by d_roundtrip)"
        if diff_obs(obs_of(kind, obj, w), before):
            return "save modifies object (reported by d_roundtrip)"
        size = len(good)
        s1 = op.get("stride1", 600)
        offsets = list(range(0, min(size, s1) + 1)) + list(range(s1 + 7, size + 1, 7))
        plans = []
        for kindf in ("enospc", "eio_write"):
            for B in offsets:
                plans.append(FaultPlan(kindf, at=B, **base))
        plans.append(FaultPlan("close", **base))
        for err in (errno.ENOENT, errno.EACCES, errno.EMFILE):
            plans.append(FaultPlan("open", err=err, **base))
        for plan in plans:
            fs.remove(name)
            fs.set_plan(plan)
            ctx.stats["fault_plans"] += 1
            raised = None
            try:
                save(obj, path, fmt)
            except Exception as e:  # noqa
                raised = e
            fs.set_plan(FaultPlan(None, **base))
            now = obs_of(kind, obj, w)
            d = diff_obs(now, before)
            if d:
                raise Violation(f"C06/{fmt}/failed-save-modified-object/{d[0]}", {
                    "kind": kind, "plan": plan.describe(), "observable": d[1], "after": d[2], "before": d[3]})
            if raised is None:
                ctx.stats["saves_acked_under_fault"] += 1
                # acknowledged save => a fault-free load must be equal
                try:
                    new = load(path)
                    d = diff_obs(strip_reserved(obs_of(kind, new, w)), want)
                except Exception as e:  # noqa
                    d = ("load-raised", "", repr(e), "")
                if d:
                    raise Violation(f"C06/{fmt}/acked-save-not-durable/{plan.kind}", {
                        "kind": kind, "plan": plan.describe(), "fault_fired": plan.fired, "diff": d,
                        "file_bytes": len(fs.durable(name) or b""), "expected_bytes": size})
            else:
                ctx.stats["saves_failed"] += 1
                if plan.kind in ("enospc", "eio_write") and fs.durable(name):
                    # torn file: probe only
                    try:
                        load(path)
                        ctx.stats["torn_load_returned"] += 1
                    except Exception:
                        ctx.stats["torn_load_raised"] += 1
        # no sticky state: retry on a healthy device
        fs.remove(name)
        fs.set_plan(FaultPlan(None, **base))
        try:
            save(obj, path, fmt)
            d = diff_obs(strip_reserved(obs_of(kind, load(path), w)), want)
        except Exception as e:  # noqa
            d = ("raised", "", repr(e), "")
        if d:
            raise Violation(f"C06/{fmt}/retry-after-fault", {"kind": kind, "diff": d})
        ctx.stats["retry_ok"] += 1
        # read faults on the good file
        fs.put(name, good)
        for B in offsets:
            plan = FaultPlan("eio_read", at=B, **base)
            fs.set_plan(plan)
            ctx.stats["fault_plans"] += 1
            try:
                new = load(path)
            except Exception:
                ctx.stats["loads_failed"] += 1
                continue
            finally:
                fs.set_plan(FaultPlan(None, **base))
            ctx.stats["loads_ok_under_fault"] += 1
            d = diff_obs(strip_reserved(obs_of(kind, new, w)), want) if new is not None else ("none", "", "None", "")
            if d:
                raise Violation(f"C06/{fmt}/load-under-read-fault-wrong-object", {
                    "kind": kind, "plan": plan.describe(), "fault_fired": plan.fired, "diff": d})
        plan = FaultPlan("open", err=errno.ENOENT, **base)
        fs.set_plan(plan)
        try:
            new = load(path)
            if new is not None:
                raise Violation(f"C06/{fmt}/load-succeeds-when-open-fails", {"kind": kind})
        except Violation:
            raise
        except Exception:
            pass
        fs.set_plan(FaultPlan(None, **base))
        fs.remove(name)
        return size

    return {"d_roundtrip": roundtrip, "d_faults": faults}


def execute(case):
    sut()
    if case.get("engine") == "hgr":
        return exec_hgr(case)
    if case.get("engine") == "hif":
        return exec_hif(case)
    ctx = Ctx()
    kind = case["kind"]
    ctx.fs.install()

    def on_step(w, a, op, outcome, exc):
        # restart idiom: the loaded twins are driven in lock step with their original
        if op["op"] == "copy" or op["op"].startswith("d_"):
            return
        for twin, fmt in ctx.twins.get(a, []):
            O.apply_op(kind, twin, op)
            ctx.stats["lockstep_steps"] += 1
            try:
                x = strip_reserved(obs_of(kind, w.actors[a][0], w))
            except Exception:
                continue
            y = strip_reserved(obs_of(kind, twin, w))
            d = diff_obs(y, x)
            if d:
                raise Violation(f"C06/{fmt}/post-load-divergence/{d[0]}", {
                    "kind": kind, "step": len(w.log) - 1, "op": op, "observable": d[1], "loaded_twin": d[2], "original": d[3]})

    try:
        res, w = hist.run_world("C06", case, mode="drive", handlers=make_handlers(ctx), on_step=on_step)
    except Violation as v:
        return {"violation": {"sig": v.sig, "detail": v.detail}, "digest": "violation:" + v.sig, "stats": {},
                "sample": hist.sample_of(case)}
    finally:
        ctx.fs.destroy()
    res["stats"]["c06"] = ctx.stats
    res["stats"]["faults"] = dict(ctx.fs.fired)
    res["nontrivial"] = ctx.stats["roundtrips"] + ctx.stats["retry_ok"] >= 1 and (
        sum(ctx.fs.fired.values()) >= 1 or ctx.stats["saved_after_removal"] >= 1)
    res["sample"] = hist.sample_of(case)
    return res


def simplify(case):
    if "ops" in case:
        yield from hist.simplify_ops(case)
    elif case.get("engine") == "hgr":
        for i in range(len(case["lines"])):
            c = json.loads(json.dumps(case))
            del c["lines"][i]
            yield c
    elif case.get("engine") == "hif":
        for fld in ("incidences", "nodes", "edges"):
            for i in range(len(case["doc"][fld])):
                c = json.loads(json.dumps(case))
                del c["doc"][fld][i]
                yield c


# ------------------------------------------------------------------------- .hgr
def gen_hgr(rng, seed):
    n_nodes = rng.randint(2, 9)
    weighted = rng.random() < 0.5
    n_edges = rng.randint(1, 7)
    edges, seen = [], set()
    for _ in range(n_edges):
        for _try in range(20):
            e = tuple(rng.sample(range(1, n_nodes + 1), rng.randint(1, min(5, n_nodes))))
            if frozenset(e) not in seen:
                seen.add(frozenset(e))
                edges.append([list(e), rng.randint(1, 9)])
                break
    lines = []
    fmt = ""
    vertex_weights = rng.random() < 0.3
    if weighted and vertex_weights:
        fmt = " 11"
    elif weighted:
        fmt = " 1"
    elif vertex_weights:
        fmt = " 10"

    def junk():
        x = rng.random()
        if x < 0.15:
            lines.append("% a comment " + str(rng.randint(0, 99)))
        elif x < 0.25:
            lines.append("")
        elif x < 0.3:
            lines.append("   ")

    junk()
    lines.append(f"{len(edges)} {n_nodes}{fmt}")
    for e, wgt in edges:
        junk()
        sep = " " if rng.random() < 0.8 else "  "
        body = sep.join(str(x) for x in e)
        lines.append((f"{wgt} " if weighted else "") + body)
    if vertex_weights:
        for i in range(n_nodes):
            junk()
            lines.append(str(rng.randint(1, 5)))
    junk()
    return {"engine": "hgr", "seed": seed, "weighted": weighted, "edges": edges, "n_nodes": n_nodes, "lines": lines,
            "bufsize": rng.choice([1, 7, 64, 8192]), "short": rng.choice([0, 1, 3]),
            "trailing_newline": rng.random() < 0.8}


def _hgr_expected(case):
    """Parse the case's own lines with the documented hMETIS grammar (independent of the library):
    header 'E N [fmt]', then E hyperedge lines ([weight] v1 v2 ...), then vertex weights."""
    body = [l.strip() for l in case["lines"]]
    body = [l for l in body if l and not l.startswith("%")]
    if not body:
        raise Ambiguous("no header")
    head = body[0].split()
    if len(head) < 2:
        raise Ambiguous("bad header")
    E, N = int(head[0]), int(head[1])
    fmt = int(head[2]) if len(head) > 2 else 0
    ew = fmt % 10 == 1
    if len(body) - 1 < E:
        raise Ambiguous("fewer hyperedge lines than announced")
    edges = {}
    for l in body[1:1 + E]:
        nums = [int(x) for x in l.split()]
        if ew:
            if len(nums) < 2:
                raise Ambiguous("weighted line without vertices")
            wgt, vs = nums[0], nums[1:]
        else:
            wgt, vs = 1, nums
        if len(set(vs)) != len(vs) or not vs:
            raise Ambiguous("repeated vertex")
        k = frozenset(vs)
        if k in edges:
            raise Ambiguous("repeated hyperedge")
        edges[k] = wgt
    return ew, edges


def exec_hgr(case):
    from ..models import Model

    fs = SimFS()
    fs.install()
    stats = {"hgr_docs": 1, "fault_plans": 0, "loads_ok_under_fault": 0, "loads_failed": 0}
    try:
        text = "\n".join(case["lines"]) + ("\n" if case.get("trailing_newline", True) else "")
        data = text.encode()
        fs.put("doc.hgr", data)
        path = fs.path("doc.hgr")
        ew, edges = _hgr_expected(case)
        exp = Model("H", ew)
        for k, wgt in edges.items():
            exp.edges[k] = [wgt if ew else 1, {}]
            for n in k:
                exp.nodes[n] = {}
        universe = list(range(1, case["n_nodes"] + 1))
        base = dict(bufsize=case["bufsize"], short_read=case["short"])

        def check(h, what, ctxd):
            hist.compare_derived("C06", what, "H", h, exp, universe, ignore_md=True, ignore_keys=("hmeta",), ctx=ctxd)

        fs.set_plan(FaultPlan(None, **base))
        try:
            h = load(path)
        except Exception as e:  # noqa
            raise Violation("C06/hgr/load-raised", {"exception": repr(e), "text": short(text, 500)})
        check(h, "hgr", {"text": short(text, 500)})
        for B in range(0, len(data) + 1):
            plan = FaultPlan("eio_read", at=B, **base)
            fs.set_plan(plan)
            stats["fault_plans"] += 1
            try:
                h = load(path)
            except Exception:
                stats["loads_failed"] += 1
                continue
            stats["loads_ok_under_fault"] += 1
            check(h, "hgr-under-read-fault", {"offset": B, "fired": plan.fired, "text": short(text, 500)})
    except Violation as v:
        return {"violation": {"sig": v.sig, "detail": v.detail}, "digest": "violation:" + v.sig, "stats": {},
                "sample": {"engine": "hgr", "lines": case["lines"]}}
    finally:
        fired = dict(fs.fired)
        fs.destroy()
    return {"violation": None, "digest": digest(["hgr", case["lines"], stats]), "stats": {"c06": stats, "faults": fired},
            "nontrivial": len(case["edges"]) >= 2 and sum(fired.values()) >= 1,
            "sample": {"engine": "hgr", "lines": case["lines"]}}


# -------------------------------------------------------------------------- HIF
def gen_hif(rng, seed):
    names_n = ["n%d" % i for i in range(rng.randint(2, 7))] if rng.random() < 0.6 else list(range(10, 10 + rng.randint(2, 7)))
    names_e = ["e%d" % i for i in range(rng.randint(1, 5))] if rng.random() < 0.6 else list(range(100, 100 + rng.randint(1, 5)))
    inc = []
    sets = {}
    for e in names_e:
        for _try in range(20):
            members = rng.sample(names_n, rng.randint(1, min(4, len(names_n))))
            if rng.random() < 0.15 and sets:
                members = list(rng.choice(list(sets.values())))  # repeated incidence set
            break
        sets[e] = members
        for n in members:
            rec = {"edge": e, "node": n}
            if rng.random() < 0.5:
                rec["weight"] = rng.randint(1, 5)
            if rng.random() < 0.3:
                rec["attrs"] = {"role": rng.choice(["a", "b"])}
            inc.append(rec)
    rng.shuffle(inc)
    nodes = []
    for n in names_n:
        if rng.random() < 0.8:
            rec = {"node": n}
            if rng.random() < 0.5:
                rec["attrs"] = {"colour": rng.choice(["red", "blue"])}
            nodes.append(rec)
    if rng.random() < 0.4:
        nodes.append({"node": "iso" if isinstance(names_n[0], str) else 999, "attrs": {"isolated": True}})
    edges = []
    for e in names_e:
        if rng.random() < 0.7:
            rec = {"edge": e}
            if rng.random() < 0.5:
                rec["attrs"] = {"kind": rng.choice(["x", "y"])}
            edges.append(rec)
    rng.shuffle(nodes)
    rng.shuffle(edges)
    doc = {"incidences": inc, "nodes": nodes, "edges": edges}
    x = rng.random()
    if x < 0.5:
        doc["network-type"] = "undirected"
        doc["type"] = "undirected"
    elif x < 0.7:
        doc["type"] = "asc"
    elif x < 0.85:
        doc["type"] = "undirected"
    if rng.random() < 0.5:
        doc["metadata"] = {"name": "doc%d" % rng.randint(0, 9)}
    return {"engine": "hif", "seed": seed, "doc": doc, "bufsize": rng.choice([1, 7, 64, 8192]), "short": rng.choice([0, 1, 3])}


def _check_hif(h, doc, ctxd):
    """One hyperedge per described incidence set; node / hyperedge / incidence attribute records of the
    file attached; node names are recovered from the public incidence records (the reader renames nodes)."""
    sets = {}
    for rec in doc["incidences"]:
        sets.setdefault(json.dumps(rec["edge"]), set()).add(json.dumps(rec["node"]))
    want_sets = sorted({tuple(sorted(s)) for s in sets.values()})
    try:
        incs = h.get_all_incidences_metadata()
        edges = h.get_edges()
    except Exception as e:  # noqa
        raise Violation("C06/hif/query-raised", {"exception": repr(e), **ctxd})
    # integer -> name from the incidence records
    name_of = {}
    for (edge, node), rec in incs.items():
        nm = json.dumps(rec.get("node")) if isinstance(rec, dict) else None
        if node in name_of and name_of[node] != nm:
            raise Violation("C06/hif/incidence-records", {"why": "one node id carries two names", **ctxd})
        name_of[node] = nm
    got_sets = []
    for e in edges:
        try:
            got_sets.append(tuple(sorted(name_of[n] for n in e)))
        except KeyError:
            raise Violation("C06/hif/incidence-records", {"why": "hyperedge member without incidence record", "edge": short(e), **ctxd})
    if sorted(got_sets) != want_sets:
        raise Violation("C06/hif/hyperedges", {"library": short(sorted(got_sets)), "expected": short(want_sets), **ctxd})
    # incidence records: every record of the file attached to its (hyperedge, node)
    want_inc = sorted(json.dumps(r, sort_keys=True) for r in doc["incidences"])
    # records of the same (set, node) overwrite each other when two edges describe the same set: compare as sets per (set,node)
    by_pair = {}
    for r in doc["incidences"]:
        s = tuple(sorted(sets[json.dumps(r["edge"])]))
        by_pair.setdefault((s, json.dumps(r["node"])), []).append(json.dumps(r, sort_keys=True))
    for (edge, node), rec in incs.items():
        s = tuple(sorted(name_of[n] for n in edge))
        cands = by_pair.get((s, name_of.get(node)))
        if not cands or json.dumps(rec, sort_keys=True) not in cands:
            raise Violation("C06/hif/incidence-records", {"why": "record not in file", "record": short(rec), **ctxd})
    if len(incs) != len(by_pair):
        raise Violation("C06/hif/incidence-records", {"why": "count", "library": len(incs), "expected": len(by_pair), **ctxd})
    # node records
    inv = {v: k for k, v in name_of.items()}
    try:
        nmd = h.get_nodes(metadata=True)
    except Exception as e:  # noqa
        raise Violation("C06/hif/query-raised", {"exception": repr(e), **ctxd})
    want_nodes = {json.dumps(r["node"]): r for r in doc["nodes"]}
    got_named = {}
    for n, md in nmd.items():
        if isinstance(md, dict) and "node" in md:
            got_named[json.dumps(md["node"])] = md
    for nm, r in want_nodes.items():
        if nm not in got_named or json.dumps(got_named[nm], sort_keys=True) != json.dumps(r, sort_keys=True):
            raise Violation("C06/hif/node-records", {"node": nm, "library": short(got_named.get(nm)), "expected": short(r), **ctxd})
    all_names = set(want_nodes) | {json.dumps(r["node"]) for r in doc["incidences"]}
    if len(nmd) != len(all_names):
        raise Violation("C06/hif/nodes", {"library_count": len(nmd), "expected_count": len(all_names), **ctxd})
    # hyperedge records: the record of an edge name is attached to its incidence set (last one wins if sets repeat)
    emd = h.get_edges(metadata=True)
    by_set = {}
    for r in doc["edges"]:
        key = json.dumps(r["edge"])
        if key in sets:
            by_set.setdefault(tuple(sorted(sets[key])), []).append(json.dumps(r, sort_keys=True))
    for e, md in emd.items():
        s = tuple(sorted(name_of[n] for n in e))
        if s in by_set:
            if json.dumps(md, sort_keys=True) not in by_set[s]:
                raise Violation("C06/hif/edge-records", {"edge": short(s), "library": short(md), "expected_one_of": short(by_set[s]), **ctxd})
    if "metadata" in doc:
        if json.dumps(h.get_hypergraph_metadata(), sort_keys=True) != json.dumps(doc["metadata"], sort_keys=True):
            raise Violation("C06/hif/metadata", {"library": short(h.get_hypergraph_metadata()), "expected": doc["metadata"], **ctxd})


def exec_hif(case):
    from hypergraphx.readwrite import read_hif

    fs = SimFS()
    fs.install()
    stats = {"hif_docs": 1, "fault_plans": 0, "loads_ok_under_fault": 0, "loads_failed": 0}
    doc = case["doc"]
    try:
        data = json.dumps(doc).encode()
        fs.put("doc.hif.json", data)
        path = fs.path("doc.hif.json")
        base = dict(bufsize=case["bufsize"], short_read=case["short"])
        fs.set_plan(FaultPlan(None, **base))
        try:
            h = quiet(read_hif, path)
        except Exception as e:  # noqa
            raise Violation("C06/hif/read-raised", {"exception": repr(e), "doc": short(json.dumps(doc), 600)})
        _check_hif(h, doc, {"doc": short(json.dumps(doc), 600)})
        step = 1 if len(data) <= 700 else 5
        for B in range(0, len(data) + 1, step):
            plan = FaultPlan("eio_read", at=B, **base)
            fs.set_plan(plan)
            stats["fault_plans"] += 1
            try:
                h = quiet(read_hif, path)
            except Exception:
                stats["loads_failed"] += 1
                continue
            stats["loads_ok_under_fault"] += 1
            _check_hif(h, doc, {"offset": B, "fired": plan.fired})
    except Violation as v:
        return {"violation": {"sig": v.sig, "detail": v.detail}, "digest": "violation:" + v.sig, "stats": {},
                "sample": {"engine": "hif", "doc": doc}}
    finally:
        fired = dict(fs.fired)
        fs.destroy()
    return {"violation": None, "digest": digest(["hif", doc, stats]), "stats": {"c06": stats, "faults": fired},
            "nontrivial": len(doc["incidences"]) >= 2 and sum(fired.values()) >= 1,
            "sample": {"engine": "hif", "doc": doc}}
