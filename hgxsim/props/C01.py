"""C01 - Hypergraph answers every query as the abstract hypergraph of its history."""
from ._refine import make

globals().update(make("C01", "H"))
