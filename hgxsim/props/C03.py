"""C03 - TemporalHypergraph: refinement + windows, snapshots, aggregate (Engine H)."""
from .. import hist
from .. import observe as O
from ..core import Violation, short, tag
from ..models import Model
from ._refine import make


def propose(g, model, name):
    r = g.rng
    if name == "d_aggregate":
        return {"op": name, "w": r.randint(1, 8)}
    if name == "d_snapshots":
        if r.random() < 0.25:
            return {"op": name, "window": None}
        a = r.randint(0, 7)
        return {"op": name, "window": [a, r.randint(a, 8)]}
    return None


def h_aggregate(w, a, op):
    obj, model = w.actors[a]
    width = op["w"]
    if model.edges and max(k[0] for k in model.edges) // width > 300:
        # [0, max time] would be split into more than 300 windows (times up to 10**12 occur): use a width that gives <= 40
        width = max(k[0] for k in model.edges) // 40 + 1
    try:
        res = obj.aggregate(width)
    except Exception as e:  # noqa
        raise Violation("C03/derive/aggregate/raised", {"op": op, "exception": repr(e)})
    if not model.edges:
        return "no-edges"  # "[0, max time]" undefined without a hyperedge: not asserted
    maxt = max(k[0] for k in model.edges)
    nwin = maxt // width + 1
    if not isinstance(res, dict) or sorted(res.keys()) != list(range(nwin)):
        raise Violation("C03/derive/aggregate/windows", {
            "op": op, "library_keys": short(sorted(res.keys()) if isinstance(res, dict) else res),
            "expected_keys": list(range(nwin)), "max_time": maxt})
    for k in range(nwin):
        exp = Model("H", model.weighted)
        for n, md in model.nodes.items():
            exp.nodes[n] = {}
        for (t, ns), (wt, md) in sorted(model.edges.items(), key=lambda kv: (kv[0][0], sorted(tag(x) for x in kv[0][1]))):
            if k * width <= t < (k + 1) * width:
                if ns in exp.edges:
                    if model.weighted:
                        exp.edges[ns][0] = exp.edges[ns][0] + wt
                    w.probe("aggregate_repeat_in_window")
                else:
                    exp.edges[ns] = [wt if model.weighted else 1, {}]
        hist.compare_derived("C03", "aggregate", "H", res[k], exp, w.U, ctx={"width": width, "window": k})
    w.probe("aggregate_windows", nwin)
    return nwin


def h_snapshots(w, a, op):
    obj, model = w.actors[a]
    win = op["window"]
    try:
        res = obj.subhypergraph(tuple(win)) if win is not None else obj.subhypergraph()
    except Exception as e:  # noqa
        raise Violation("C03/derive/snapshots/raised", {"op": op, "exception": repr(e)})
    lo, hi = (win if win is not None else (-1, float("inf")))
    times = sorted({t for (t, ns) in model.edges if lo <= t < hi})
    if not isinstance(res, dict) or sorted(res.keys()) != times:
        raise Violation("C03/derive/snapshots/times", {
            "op": op, "library_keys": short(sorted(res.keys()) if isinstance(res, dict) else res), "expected": times})
    for t in times:
        exp = Model("H", model.weighted)
        for (tt, ns), (wt, md) in model.edges.items():
            if tt == t:
                exp.edges[ns] = [wt, {}]
        hist.compare_derived("C03", "snapshots", "H", res[t], exp, w.U, ignore_nodes=True, ctx={"window": win, "time": t})
    w.probe("snapshot_times", len(times))
    return len(times)


globals().update(make("C03", "T", extra_ops=("d_aggregate", "d_snapshots"), extra_propose=propose,
                      handlers={"d_aggregate": h_aggregate, "d_snapshots": h_snapshots}))
