"""C03 - refinement of the T container against its reference model (Engine H)."""
from ._refine import make

globals().update(make("C03", "T"))
