"""C19b - get_svh under a scheduled worker pool (Engine R)."""
import contextlib
import io
import json
import math
import random

from ..core import Violation, derive, digest, short, sut, tag
from ..rngsim import SimPool
from . import _gen


def generate(rng, seed):
    spec = _gen.rand_hypergraph_spec(rng, nmin=3, nmax=8, emin=1, emax=10, smin=2, smax=5, singletons=0.15,
                                     labels=rng.choice(["int", "int", "str"]))
    weights = [rng.choice([1, 1, 2, 3, 5, 8]) for _ in spec["edges"]]
    if rng.random() < 0.4:
        # a few heavy hyperedges among light ones: some p-values fall below the threshold
        weights = [1 for _ in spec["edges"]]
        for i in rng.sample(range(len(weights)), min(len(weights), rng.randint(1, 2))):
            weights[i] = rng.randint(6, 15)
    if rng.random() < 0.35:
        # node-disjoint heavy hyperedges of one size: the regime in which hyperedges do get validated
        n = rng.randint(6, 10)
        nodes = list(range(n)) if spec["labels"] != "str" else _gen.STR_LABELS[:n] + ["p%d" % i for i in range(max(0, n - 9))]
        k = rng.choice([2, 2, 3])
        pool = nodes[:]
        rng.shuffle(pool)
        edges = [pool[i:i + k] for i in range(0, len(pool) - k + 1, k)]
        weights = [rng.randint(7, 15) for _ in edges]
        for _ in range(rng.randint(0, 3)):
            e = rng.sample(nodes, rng.choice([2, 3]))
            if all(set(e) != set(x) for x in edges):
                edges.append(e)
                weights.append(rng.randint(1, 2))
        spec = {"nodes": nodes, "edges": edges, "labels": spec["labels"]}
    if rng.random() < 0.12:
        # few large, heavy, overlapping hyperedges: the product of the node counts exceeds 2**63
        n = rng.randint(10, 12)
        nodes = list(range(n))
        k = rng.randint(8, min(10, n))
        edges, seen = [], set()
        for _ in range(rng.randint(2, 3)):
            e = rng.sample(nodes, k)
            if frozenset(e) not in seen:
                seen.add(frozenset(e))
                edges.append(e)
        weights = [rng.randint(30, 80) for _ in edges]
        spec = {"nodes": nodes, "edges": edges, "labels": "int"}
        return {"engine": "svh", "seed": seed, "spec": spec, "weights": weights, "max_order": 10, "workers": rng.randint(1, 64)}
    if rng.random() < 0.04 and len(weights) >= 2:
        weights[rng.randrange(len(weights) - 1)] = rng.choice([1001, 1200, 2500])  # a very heavy hyperedge, not the last one
    return {"engine": "svh", "seed": seed, "spec": spec, "weights": weights, "max_order": rng.choice([2, 3, 4, 5, 10]),
            "workers": rng.randint(1, 64)}


def _binom_sf(k, n, p):
    """P(X >= k+1) for X ~ Binomial(n, p), computed from the definition with exact rationals where possible."""
    from fractions import Fraction

    if n > 400:
        # long sums: log-space floats (independent of scipy), relative accuracy ~1e-12
        pf = float(p)
        if pf <= 0.0:
            return 0.0 if k + 1 > 0 else 1.0
        if pf >= 1.0:
            return 1.0
        lp, lq = math.log(pf), math.log1p(-pf)
        terms = [math.lgamma(n + 1) - math.lgamma(i + 1) - math.lgamma(n - i + 1) + i * lp + (n - i) * lq for i in range(k + 1, n + 1)]
        if not terms:
            return 0.0
        mx = max(terms)
        return math.exp(mx) * math.fsum(math.exp(t - mx) for t in terms)
    p = Fraction(p)
    tot = Fraction(0)
    for i in range(k + 1, n + 1):
        tot += math.comb(n, i) * p**i * (1 - p) ** (n - i)
    return float(tot)


def _table(res):
    out = {}
    for order, df in res.items():
        rows = []
        for _, r in df.iterrows():
            rows.append((tuple(r["edge"]), float(r["pvalue"]), bool(r["fdr"])))
        out[int(order)] = rows
    return out


def execute(case):
    sut()
    from fractions import Fraction

    import hypergraphx.filters.statistical_filters as SF

    spec = case["spec"]
    stats = {"svh_calls": 0}
    try:
        h = _gen.build_hypergraph(spec, weights=case["weights"], weighted=True)
        try:
            with contextlib.redirect_stdout(io.StringIO()):
                seq = SF.get_svh(h, max_order=case["max_order"], mp=False)
        except Exception as e:  # noqa
            raise Violation("C19/svh/raised", {"exception": repr(e), "edges": short(spec["edges"], 300)})
        saved = (SF.Pool, SF.cpu_count)
        SimPool.rng = random.Random(derive(case["seed"], "pool"))
        SimPool.stats = {}
        SF.Pool = SimPool
        SF.cpu_count = lambda: case["workers"]
        try:
            with contextlib.redirect_stdout(io.StringIO()):
                par = SF.get_svh(h, max_order=case["max_order"], mp=True)
        except Exception as e:  # noqa
            raise Violation("C19/svh/mp-raised", {"exception": repr(e), "edges": short(spec["edges"], 300)})
        finally:
            SF.Pool, SF.cpu_count = saved
        pool_stats = SimPool.stats
        ts, tp = _table(seq), _table(par)
        ctx = {"edges": short(spec["edges"], 300), "weights": case["weights"], "max_order": case["max_order"]}
        if ts != tp:
            raise Violation("C19/svh/mp-differs-from-sequential", {"sequential": short(ts, 400), "parallel": short(tp, 400),
                                                                   "pool": pool_stats, **ctx})
        # definition
        by_size = {}
        for e, w in zip(spec["edges"], case["weights"]):
            by_size.setdefault(len(e), []).append((tuple(sorted(e)), w))
        want_sizes = sorted(s for s in by_size if 2 <= s <= case["max_order"])
        if sorted(ts) != want_sizes:
            raise Violation("C19/svh/sizes", {"library": sorted(ts), "expected": want_sizes, **ctx})
        for s in want_sizes:
            rows = ts[s]
            N = sum(w for _, w in by_size[s])
            K = {}
            for e, w in by_size[s]:
                for n in e:
                    K[n] = K.get(n, 0) + w
            got = sorted(tuple(map(tag, e)) for e, _, _ in rows)
            exp = sorted(tuple(map(tag, e)) for e, _ in by_size[s])
            if got != exp:
                raise Violation("C19/svh/hyperedges-listed", {"size": s, "library": short(got), "expected": short(exp), **ctx})
            wmap = {tuple(map(tag, e)): (e, w) for e, w in by_size[s]}
            for e, p, f in rows:
                e0, w = wmap[tuple(map(tag, e))]
                prob = Fraction(1)
                for n in e0:
                    prob *= Fraction(K[n], N)
                ref = _binom_sf(w - 1, N, prob)
                if not (abs(p - ref) <= (1e-9 if N <= 400 else 1e-6) * max(ref, 1e-300) + 1e-15):
                    raise Violation("C19/svh/pvalue", {"size": s, "edge": short(e), "library": p, "definition": ref, "N": N, **ctx})
            # the multiple-testing threshold computed from those p-values (step-up FDR, default alpha = 0.01,
            # Bonferroni count = number of possible hyperedges of this size on the nodes that occur at this size)
            n_a = len(K)
            tau = 0.01 / math.comb(n_a, s)
            ps = sorted(p for _, p, _ in rows)
            thr = 0.0
            for kk, pv in enumerate(ps, start=1):
                if pv < kk * tau:
                    thr = kk * tau
            for e, p, f in rows:
                if abs(p - thr) <= 1e-12 * max(thr, 1e-300):
                    continue  # exactly on the threshold: not asserted
                if f != (p < thr):
                    raise Violation("C19/svh/validated-set-differs-from-fdr-threshold", {
                        "size": s, "edge": short(e), "pvalue": p, "threshold": thr, "validated": f, "rows": short(rows, 400), **ctx})
            val = [p for _, p, f in rows if f]
            non = [p for _, p, f in rows if not f]
            if val and non and max(val) > min(non):
                raise Violation("C19/svh/validated-with-larger-pvalue", {"size": s, "rows": short(rows, 400), **ctx})
            stats["validated"] = stats.get("validated", 0) + len(val)
            stats["pvalues"] = stats.get("pvalues", 0) + len(rows)
        stats["svh_calls"] += 2
    except Violation as v:
        return {"violation": {"sig": v.sig, "detail": v.detail}, "digest": "violation:" + v.sig, "stats": {},
                "sample": {"case": case}}
    return {"violation": None, "digest": digest(["svh", ts, pool_stats.get("orders")]),
            "stats": {"c19b": stats, "pool": {k: v for k, v in pool_stats.items() if isinstance(v, (int, dict))},
                      "faults": {"pool_order_permuted": pool_stats.get("permuted_maps", 0)}},
            "nontrivial": stats.get("pvalues", 0) >= 2 and pool_stats.get("permuted_maps", 0) >= 1,
            "sample": {"case": case}}


def simplify(case):
    for i in range(len(case["spec"]["edges"])):
        c = json.loads(json.dumps(case))
        del c["spec"]["edges"][i]
        del c["weights"][i]
        yield c
    for i, w in enumerate(case["weights"]):
        if w > 1:
            c = json.loads(json.dumps(case))
            c["weights"][i] = 1
            yield c


def real_pool_case(case):
    """get_svh through the real multiprocessing.Pool (2 or 3 workers) against mp=False on a fixed-seed input with
    many hyperedges per size.  Returns a violation dict or None."""
    sut()
    import hypergraphx.filters.statistical_filters as SF

    rng = random.Random(1000 + case["k"])
    spec = _gen.rand_hypergraph_spec(rng, nmin=8, nmax=9, emin=12, emax=20, smin=2, smax=3, labels="int")
    weights = [rng.choice([1, 2, 3]) for _ in spec["edges"]]
    h = _gen.build_hypergraph(spec, weights=weights, weighted=True)
    saved = SF.cpu_count
    SF.cpu_count = lambda: 2 + case["k"] % 2
    try:
        with contextlib.redirect_stdout(io.StringIO()):
            a = _table(SF.get_svh(h, max_order=5, mp=True))
            b = _table(SF.get_svh(h, max_order=5, mp=False))
    except Exception as e:  # noqa
        return {"sig": "C19/svh/real-pool-raised", "detail": {"exception": repr(e)}}
    finally:
        SF.cpu_count = saved
    if a != b:
        return {"sig": "C19/svh/real-pool-differs-from-sequential", "detail": {"workers": 2 + case["k"] % 2,
                "parallel": short(a, 400), "sequential": short(b, 400), "edges": short(spec["edges"], 300)}}
    return None


def real_pool_smoke():
    """One call through the real multiprocessing.Pool keeps the stub honest."""
    sut()
    import hypergraphx.filters.statistical_filters as SF

    rng = random.Random(7)
    case = generate(rng, 7)
    h = _gen.build_hypergraph(case["spec"], weights=case["weights"], weighted=True)
    saved = SF.cpu_count
    SF.cpu_count = lambda: 2
    try:
        with contextlib.redirect_stdout(io.StringIO()):
            a = _table(SF.get_svh(h, max_order=5, mp=True))
            b = _table(SF.get_svh(h, max_order=5, mp=False))
    finally:
        SF.cpu_count = saved
    return a == b
