"""C17 - Hypergraph-MT and HySC: valid reproducible output, EM ascends (Engine R with clock)."""
import contextlib
import io
import itertools
import json
import math
import random
import random as _pyrandom

import numpy as np

from ..core import Violation, derive, digest, short, sut
from ..rngsim import Facade, SimClock
from . import _gen

LEVEL = "exploration"
COMPONENTS = {
    "real": ["hypergraphx.communities.hypergraph_mt.model.HypergraphMT (fit, EM updates, psi bookkeeping, _LogLikelihood)",
             "hypergraphx.communities.hy_sc.model.HySC", "scikit-learn KMeans (its own seeded RandomState, threads pinned to 1)",
             "numpy.linalg.eig, scipy.optimize.root, pandas"],
    "stub": ["time.time inside hypergraph_mt/model.py (SimClock)", "numpy.random.RandomState as seen by hypergraph_mt/model.py only "
             "(logging subclass; may replace the node-update permutation by identity / reverse / a rotation)",
             "global random.* / numpy.random.* front-ends (Facade) - perturbed between the two same-seed runs"],
    "simulator_owned": ["node-update permutation of every EM iteration (= the schedule)", "simulated clock: monotone in one run, jumps / stalls / backward steps in the other",
                        "global PRNG state between same-seed runs"],
}
ASSUMPTIONS = [
    "N <= 9 so that the likelihood is computed from its definition over all C(N,d) subsets; K <= number of non-isolated nodes (k-means needs as many points as clusters)",
    "ascent asserted for normalizeU=False (tolerance 1e-8 relative), agreement with the definition for min_value_par=0 (tolerance 1e-6 relative)",
    "scikit-learn / BLAS threads pinned to 1 by the check's environment",
]
RULE = ("one run = one hypergraph (5-9 nodes incl. isolated, D 2-4, weighted or not; 0.4% of the runs: 1001-1100 nodes, sparse, D 2-3) and one (K, seed, n_realizations, max_iter, normalizeU, baseline_r0, "
        "min_value_par) configuration; HypergraphMT.fit is executed twice with the same seed - second time under a jumping/backward clock, perturbed "
        "global PRNGs - and HySC.fit twice.  Non-trivial: >= 2 EM iterations recorded and >= 1 clock anomaly or adversarial permutation; distinct = result digests.")
# documented frequency of the three listed known findings on the unchanged tree (12000-run soak): 0.07%, 0.14%, 0.6% of
# all runs.  A surge far above that is reported as a separate violation (<sig>/rate-above-known-finding).
KNOWN_RATE_BOUNDS = {"C17/mt/raised[AssertionError]": 0.005, "C17/mt/loglik-decreased": 0.02, "C17/mt/maxL-differs-from-definition": 0.02,
                     "C17/mt/row-not-normalised": 0.05,
                     # with w or u held at the user's array (1/7 of the runs each) the psi-bookkeeping findings were seen
                     # 1 time in 8500 such runs (30000-run sample): bound 0.3 % of ALL runs
                     "C17/mt/loglik-decreased@fix_w": 0.003, "C17/mt/maxL-differs-from-definition@fix_w": 0.003,
                     "C17/mt/loglik-decreased@fix_communities": 0.003, "C17/mt/maxL-differs-from-definition@fix_communities": 0.003}
TIERS = {"quick": {"runs": 2000, "wall_cap": 240, "det_seeds": 6, "min_tests": 150},
         "thorough": {"runs": 25000, "wall_cap": 3000, "det_seeds": 24, "min_tests": 500}}


def _generate_huge(seed, rng):
    """A rare run at another scale: just over a thousand nodes, sparse, one realisation, a few EM iterations."""
    N = rng.choice([1001, 1003, 1024, 1100])
    D = rng.randint(2, 3)
    nodes = list(range(N))
    edges, seen = [], set()
    order = nodes[:]
    rng.shuffle(order)
    for i in range(0, N - 1, 2):  # a sparse backbone, then random hyperedges
        e = [order[i], order[i + 1]] + ([order[(i + 7) % N]] if D == 3 and rng.random() < 0.4 else [])
        if len(set(e)) == len(e) and frozenset(e) not in seen:
            seen.add(frozenset(e)); edges.append(e)
    for _ in range(rng.randint(100, 400)):
        e = rng.sample(nodes, rng.randint(2, D))
        if frozenset(e) not in seen:
            seen.add(frozenset(e)); edges.append(e)
    weighted = rng.random() < 0.5
    return {"seed": seed, "q": rng.choice([0.0, 0.2]), "spec": {"nodes": nodes, "edges": edges, "labels": "int"}, "weighted": weighted,
            "weights": [rng.randint(1, 4) for _ in edges], "K": rng.randint(2, 3), "sut_seed": rng.choice([0, 1, rng.randint(0, 10**5)]),
            "reuse_object": rng.random() < 0.35, "n_real": 1, "max_iter": rng.randint(1, 4),
            "normalizeU": rng.random() < 0.4, "baseline_r0": rng.random() < 0.7, "min_value_par": 0.0,
            "init": None, "init_seed": 0, "huge": True}


def generate(seed, tier):
    rng = random.Random(seed)
    if rng.random() < 0.004:
        return _generate_huge(seed, rng)
    N = rng.randint(5, 9)
    D = rng.randint(2, 4)
    n_iso = rng.choice([0, 0, 1, 2])
    core_n = max(3, N - n_iso)
    smin = 2
    if rng.random() < 0.25 and min(D, core_n) >= 3:
        smin = 3  # no pairwise hyperedge at all
    spec = _gen.rand_hypergraph_spec(rng, nmin=core_n, nmax=core_n, emin=3, emax=10, smin=smin, smax=min(D, core_n),
                                     labels=rng.choice(["int", "int", "str"]))
    extra = ["iso%d" % i for i in range(N - core_n)] if spec["labels"] == "str" else list(range(100, 100 + N - core_n))
    spec["nodes"] = spec["nodes"] + extra
    used = {n for e in spec["edges"] for n in e}
    K = rng.randint(2, 3)
    K = max(2, min(K, len(used)))
    weighted = rng.random() < 0.5
    return {"seed": seed, "q": rng.choice([0.0, 0.2, 0.5]), "spec": spec, "weighted": weighted,
            "weights": [rng.randint(1, 4) if rng.random() < 0.93 else 0 for _ in spec["edges"]], "K": K, "sut_seed": rng.choice([0, 0, 1, None, rng.randint(0, 10**5), rng.randint(0, 10**5), rng.randint(0, 10**5)]),
            "reuse_object": rng.random() < 0.35,
            "n_real": rng.randint(1, 3), "max_iter": rng.randint(1, 30 if tier == "quick" else 80),
            "normalizeU": rng.random() < 0.4, "baseline_r0": rng.random() < 0.5,
            "min_value_par": rng.choice([0.0, 0.0, 1e-5]),
            "init": rng.choice([None, None, None, "u0", "w0", "both"]), "init_seed": rng.randint(0, 10**6),
            "decoy": _decoy(rng) if rng.random() < 0.25 else None,
            # one of the two parameter blocks is kept at the user's start array (coordinate ascent on the other block)
            "fix": rng.choice([None] * 5 + ["w", "communities"])}


def _decoy(rng):
    """Another hypergraph the object is fitted to first: usually smaller (higher likelihood), other isolated nodes."""
    spec = _gen.rand_hypergraph_spec(rng, nmin=3, nmax=6, emin=2, emax=5, smin=2, smax=3, labels="int")
    spec["nodes"] = spec["nodes"] + [200 + i for i in range(rng.choice([0, 1, 3]))]
    used = {n for e in spec["edges"] for n in e}
    return {"spec": spec, "K": max(2, min(rng.randint(2, 3), len(used))), "seed": rng.randint(0, 10**5)}


# --------------------------------------------------------------------- the seams
def _install(case, run_idx, clock_mode):
    """Give hypergraph_mt/model.py a simulated clock and a logging RandomState."""
    import hypergraphx.communities.hypergraph_mt.model as M

    real_np = np
    info = {"perm_calls": 0, "perm_overrides": 0, "draws": 0}
    q = case["q"]
    base = case["seed"]

    class LoggingRandomState(real_np.random.RandomState):
        def __init__(self, seed=None):
            super().__init__(seed)
            self._bug = _pyrandom.Random(derive(base, "mtbug", seed))

        def permutation(self, x):
            info["perm_calls"] += 1
            v = super().permutation(x)
            if q > 0 and self._bug.random() < q:
                info["perm_overrides"] += 1
                arr = real_np.array(list(x)) if not isinstance(x, (int, real_np.integer)) else real_np.arange(x)
                mode = self._bug.choice(["identity", "reverse", "rotate"])
                if mode == "reverse":
                    arr = arr[::-1].copy()
                elif mode == "rotate" and len(arr) > 1:
                    arr = real_np.roll(arr, self._bug.randrange(1, len(arr)))
                return arr
            return v

        def random_sample(self, size=None):
            info["draws"] += 1
            return super().random_sample(size)

    class RandomNS:
        RandomState = LoggingRandomState

        def __getattr__(self, name):
            return getattr(real_np.random, name)

    class NPProxy:
        random = RandomNS()

        def __getattr__(self, name):
            return getattr(real_np, name)

    clock = SimClock(derive(case["seed"], "clock", run_idx), mode=clock_mode)
    saved = (M.np, M.time)
    M.np = NPProxy()
    M.time = clock
    return saved, clock, info


def _uninstall(saved):
    import hypergraphx.communities.hypergraph_mt.model as M

    M.np, M.time = saved


_START = {}


def _start_arrays(case, h):
    """The user's start arrays: ONE pair of array objects per case, handed to both same-seed runs."""
    key = (case["seed"], case.get("init"), case.get("fix"))
    if key not in _START:
        r = np.random.RandomState(case.get("init_seed", 0))
        N = h.num_nodes()
        D = max(len(e) for e in h.get_edges())
        _START.clear()
        _START[key] = (r.random_sample((N, case["K"])) + 0.05, r.random_sample((D - 1, case["K"])) + 0.05)
    return _START[key]


def _fit_mt(case, run_idx, clock_mode, perturb, reuse=None, decoy=None):
    from hypergraphx.communities.hypergraph_mt.model import HypergraphMT

    h = _gen.build_hypergraph(case["spec"], weights=case["weights"], weighted=case["weighted"])
    extra = {}
    if case.get("init"):
        u0, w0 = _start_arrays(case, h)
        if case["init"] in ("u0", "both"):
            extra["initialize_u0"] = u0
        if case["init"] in ("w0", "both"):
            extra["initialize_w0"] = w0
    if case.get("fix"):
        u0, w0 = _start_arrays(case, h)
        if case["fix"] == "w":
            extra["initialize_w0"] = w0
            extra["fix_w"] = True
        else:
            extra["initialize_u0"] = u0
            extra["fix_communities"] = True
    saved, clock, info = _install(case, run_idx, clock_mode)
    fac = Facade(derive(case["seed"], "globals", run_idx))
    try:
        with fac, contextlib.redirect_stdout(io.StringIO()):
            if perturb:
                fac.perturb(7)
            m = reuse if reuse is not None else HypergraphMT(
                n_realizations=case["n_real"], max_iter=case["max_iter"], min_value_par=case["min_value_par"],
                verbose=False, check_convergence_every=1)
            if decoy is not None:
                # the object has a past: it was fitted to another hypergraph (other size, other isolated nodes) before
                hd = _gen.build_hypergraph(decoy["spec"])
                try:
                    m.fit(hd, K=decoy["K"], seed=decoy["seed"], normalizeU=case["normalizeU"], baseline_r0=case["baseline_r0"])
                except Exception as e:  # noqa
                    # the other hypergraph is an input in its own right: same signature as for the main input
                    raise Violation(f"C17/mt/raised[{type(e).__name__}]", {
                        "exception": repr(e), "input": "the hypergraph the object is fitted to first", "decoy": decoy,
                        "normalizeU": case["normalizeU"], "baseline_r0": case["baseline_r0"]})
            u, w, L = m.fit(h, K=case["K"], seed=case["sut_seed"], normalizeU=case["normalizeU"], baseline_r0=case["baseline_r0"], **extra)
    finally:
        _uninstall(saved)
    return h, m, np.array(u), np.array(w), float(L), clock, info


def _definition_loglik(u, w, edges_idx, weights, N, D):
    K = u.shape[1]
    tot = 0.0
    for e, a in zip(edges_idx, weights):
        s = 0.0
        for k in range(K):
            s += w[len(e) - 2, k] * math.prod(u[i, k] for i in e)
        tot += a * math.log(s + 1e-300)
    if N > 14:
        # sum over all d-subsets of prod u[i, k] = elementary symmetric polynomial e_d(u[:, k]) (one pass per k)
        for k in range(K):
            el = [1.0] + [0.0] * D
            for i in range(N):
                x = float(u[i, k])
                for d in range(D, 0, -1):
                    el[d] += el[d - 1] * x
            for d in range(2, D + 1):
                tot -= w[d - 2, k] * el[d]
        return tot
    for d in range(2, D + 1):
        for S in itertools.combinations(range(N), d):
            for k in range(K):
                tot -= w[d - 2, k] * math.prod(u[i, k] for i in S)
    return tot


def execute(case):
    sut()
    stats = {"mt_fits": 0, "em_iterations": 0, "ascent_checks": 0, "definition_checks": 0, "hysc_fits": 0}
    try:
        ctx = {k: case[k] for k in ("K", "n_real", "max_iter", "normalizeU", "baseline_r0", "min_value_par", "weighted")}
        ctx["edges"] = short(case["spec"]["edges"], 300)
        try:
            h, m, u, w, L, clock1, info1 = _fit_mt(case, 0, "monotone", False)
        except Exception as e:  # noqa
            raise Violation(f"C17/mt/raised[{type(e).__name__}]", {"exception": repr(e), **ctx})
        nodes = list(h.get_nodes())
        N = len(nodes)
        mapping = h.get_mapping()
        edges = [tuple(e) for e in h.get_edges()]
        edges_idx = [tuple(int(x) for x in mapping.transform(list(e))) for e in edges]
        wts = [h.get_weight(e) for e in edges]
        D = max(len(e) for e in edges)
        K = case["K"]
        if u.shape != (N, K) or w.shape != (D - 1, K):
            raise Violation("C17/mt/shape", {"u": u.shape, "w": w.shape, "expected": [(N, K), (D - 1, K)], **ctx})
        if not (np.all(np.isfinite(u)) and np.all(np.isfinite(w)) and math.isfinite(L)):
            raise Violation("C17/mt/not-finite", {"u": short(u.tolist()), "w": short(w.tolist()), "maxL": L, **ctx})
        if u.min() < 0 or w.min() < 0:
            raise Violation("C17/mt/negative", {"min_u": float(u.min()), "min_w": float(w.min()), **ctx})
        used = {i for e in edges_idx for i in e}
        for i in range(N):
            if i not in used and np.any(u[i] != 0):
                raise Violation("C17/mt/isolated-node-nonzero-row", {"row": i, "u_row": u[i].tolist(), **ctx})
        deferred = None
        deferred2 = []
        if case["normalizeU"] and case.get("fix") != "communities":  # a fixed u is the user's array, normalised or not
            for i in range(N):
                s = u[i].sum()
                if s != 0 and abs(s - 1) > 1e-6:
                    # reported after the other checks of this run (it is a listed known finding; see KNOWN_FINDINGS.txt)
                    deferred = Violation("C17/mt/row-not-normalised", {"row": i, "sum": float(s), **ctx})
                    break
        ti = m.train_info
        if list(ti.columns) != ["realization", "seed", "iter", "loglik", "runtime", "reached_convergence"]:
            raise Violation("C17/mt/train-info-columns", {"columns": list(ti.columns)})
        finals = []
        for r, grp in ti.groupby("realization"):
            ll = grp.sort_values("iter")["loglik"].tolist()
            finals.append(ll[-1])
            stats["em_iterations"] += len(ll)
            if not case["normalizeU"]:
                for a, b in zip(ll, ll[1:]):
                    stats["ascent_checks"] += 1
                    if b < a - 1e-8 * max(1.0, abs(a)):
                        deferred2.append(Violation("C17/mt/loglik-decreased", {"realization": int(r), "from": a, "to": b, "trajectory": short(ll, 300), **ctx}))
                        break
        if len(finals) != case["n_real"]:
            raise Violation("C17/mt/realizations-recorded", {"recorded": len(finals), "requested": case["n_real"], **ctx})
        if abs(L - max(finals)) > 1e-9 * max(1.0, abs(L)):
            raise Violation("C17/mt/maxL-not-best-final", {"maxL": L, "finals": finals, **ctx})
        if case["min_value_par"] == 0.0:
            ref = _definition_loglik(u, w, edges_idx, wts, N, D)
            stats["definition_checks"] += 1
            if abs(ref - L) > 1e-6 * max(1.0, abs(L)):
                deferred2.append(Violation("C17/mt/maxL-differs-from-definition", {"maxL": L, "definition": ref, **ctx}))
        stats["mt_fits"] += 1
        # same seed again: other clock, perturbed globals
        try:
            t1_saved = m.train_info.drop(columns=["runtime"]).values.tolist()
            h2, m2, u2, w2, L2, clock2, info2 = _fit_mt(case, 1, "wild", True, reuse=m if case.get("reuse_object") else None,
                                                        decoy=case.get("decoy"))
            if case.get("reuse_object"):
                stats["same_object_fitted_twice"] = stats.get("same_object_fitted_twice", 0) + 1
            if case.get("decoy"):
                stats["fitted_after_another_hypergraph"] = stats.get("fitted_after_another_hypergraph", 0) + 1
        except Violation:
            raise
        except Exception as e:  # noqa
            raise Violation(f"C17/mt/raised-on-second-run[{type(e).__name__}]", {"exception": repr(e), **ctx})
        t1 = t1_saved
        t2 = m2.train_info.drop(columns=["runtime"]).values.tolist()
        if not (u.shape == u2.shape and w.shape == w2.shape and np.array_equal(u, u2) and np.array_equal(w, w2) and L == L2) or t1 != t2:
            raise Violation("C17/mt/same-seed-different-result" + ("[object-fitted-before]" if case.get("decoy") else ""), {
                "shapes": [list(u.shape), list(u2.shape)], "decoy": case.get("decoy"),
                "maxL": [L, L2], "max_abs_du": float(np.max(np.abs(u - u2))) if u.shape == u2.shape else None,
                "train_info_equal": t1 == t2, "clock_events": clock2.events, **ctx})
        stats["mt_fits"] += 1
        if case.get("init"):
            stats["runs_with_user_start_arrays"] = stats.get("runs_with_user_start_arrays", 0) + 1
        # HySC
        from hypergraphx.communities.hy_sc.model import HySC

        outs = []
        for rep in range(2):
            hh = _gen.build_hypergraph(case["spec"], weights=case["weights"], weighted=case["weighted"])
            fac = Facade(derive(case["seed"], "hysc", rep))
            try:
                with fac, contextlib.redirect_stdout(io.StringIO()):
                    if rep:
                        fac.perturb(5)
                    sc = HySC(n_realizations=3) if case["sut_seed"] is None else HySC(seed=case["sut_seed"], n_realizations=3)
                    if rep and case.get("decoy"):
                        sc.fit(_gen.build_hypergraph(case["decoy"]["spec"]), K=case["decoy"]["K"])  # the object has a past
                    x = np.array(sc.fit(hh, K=K))
            except Exception as e:  # noqa
                raise Violation("C17/hysc/raised", {"exception": repr(e), **ctx})
            outs.append(x)
            stats["hysc_fits"] += 1
        x = outs[0]
        if x.shape != (N, K) or not np.all((x == 0) | (x == 1)):
            raise Violation("C17/hysc/not-0-1", {"x": short(x.tolist()), **ctx})
        for i in range(N):
            s = x[i].sum()
            if (i in used and s != 1) or (i not in used and s != 0):
                raise Violation("C17/hysc/row-sum", {"row": i, "isolated": i not in used, "sum": float(s), **ctx})
        if not np.array_equal(outs[0], outs[1]):
            raise Violation("C17/hysc/same-seed-different-result", ctx)
        # the listed known findings (psi bookkeeping, row normalisation) are reported after every other check of the run
        for v in deferred2:
            raise v
        if deferred is not None:
            raise deferred
    except Violation as v:
        vio = {"sig": v.sig, "detail": v.detail}
        if case.get("fix"):
            vio["rate_tag"] = "fix_" + case["fix"]  # the listed findings are far rarer with one parameter block held fixed
        return {"violation": vio, "digest": "violation:" + v.sig, "stats": {}, "sample": {"case": case}}
    faults = {"clock_" + k: v for k, v in clock2.events.items()}
    faults["adversarial_permutation"] = info1["perm_overrides"] + info2["perm_overrides"]
    stats["simulated_clock_reads"] = clock1.reads + clock2.reads
    stats["permutations"] = info1["perm_calls"] + info2["perm_calls"]
    return {"violation": None, "digest": digest([u.tolist(), w.tolist(), L, x.tolist()]),
            "stats": {"c17": stats, "faults": faults},
            "nontrivial": stats["em_iterations"] >= 2 and sum(faults.values()) >= 1,
            "sample": {"case": case, "maxL": L}}


def simplify(case):
    c = json.loads(json.dumps(case))
    if case.get("q", 0) > 0:
        c2 = dict(c)
        c2["q"] = 0.0
        yield c2
    if case.get("decoy"):
        c2 = dict(c)
        c2["decoy"] = None
        yield c2
    for fld, lo in (("max_iter", 1), ("n_real", 1)):
        if case[fld] > lo:
            c2 = dict(c)
            c2[fld] = case[fld] - 1
            yield c2
    if case.get("huge"):
        # every test costs seconds at this scale: only coarse deletions (halves, quarters, eighths of the hyperedge list)
        m = len(case["spec"]["edges"])
        for parts in (2, 4, 8):
            size = m // parts
            if size < 20:
                break
            for j in range(parts):
                c2 = json.loads(json.dumps(c))
                del c2["spec"]["edges"][j * size:(j + 1) * size]
                del c2["weights"][j * size:(j + 1) * size]
                yield c2
        return
    for i in range(len(case["spec"]["edges"])):
        if len(case["spec"]["edges"]) > 3:
            c2 = json.loads(json.dumps(c))
            del c2["spec"]["edges"][i]
            del c2["weights"][i]
            yield c2


def sim_time(stats):
    c = stats.get("c17", {})
    return {"unit": "EM iterations recorded in train_info; simulated clock reads (the only timer in the system under test: time.time in hypergraph_mt)",
            "value": c.get("em_iterations", 0), "clock_reads": c.get("simulated_clock_reads", 0)}
