"""C16 - Hy-MMSBM sampler: valid hypergraphs, conditioning, seed (Engine R)."""
import itertools
import json
import random
from collections import Counter

import numpy as np

from ..core import Violation, derive, digest, short, sut, tag
from ..rngsim import DrawBudgetExceeded, Facade
from . import _gen

LEVEL = "exploration"
COMPONENTS = {
    "real": ["hypergraphx.generation.hy_mmsbm_sampling.HyMMSBMSampler (sample, _sampling_from_sequences, _match_sequences, _extract_hye, "
             "_mcmc_routine, _mcmc_step, _pairwise_reshuffle, sample_truncated_poisson)", "HyMMSBM (poisson_params, log_kappa, "
             "degree/dimension sequences)", "Hypergraph, sklearn LabelEncoder mapping", "scipy.stats.poisson"],
    "stub": ["numpy.random.default_rng for callers inside hypergraphx (GenProxy: pair choice, reshuffle choice, accept/reject coin, weights)"],
    "simulator_owned": ["pair choice and reshuffle choice of every chain step (forced repeated pairs / extreme choices)",
                        "accept/reject coin (forced accept and near-certain reject stretches)", "burn-in and thinning lengths"],
}
ASSUMPTIONS = [
    "a call that raises produces no hypergraph: counted as no_sample, never a violation, but it must raise identically for the same seed",
    "initial hypergraphs and size sequences use sizes >= 2; degree = number of distinct hyperedges containing the node",
    "N <= 8, K <= 3; 1-6 yielded samples per run, burn-in 0..5, thinning 0..3 (thinning 1 makes every chain step a yielded sample)",
]
RULE = ("one run = one sampler configuration (mode: initial hypergraph / degree+size sequences / model alone) and the first few yielded samples, "
        "each checked for validity and conditioning; the same configuration is sampled twice (same seed) and must give identical samples.  "
        "Non-trivial: >= 1 sample produced and >= 1 accepted chain move or adversarial draw; distinct = draw-trace digests.")
TIERS = {"quick": {"runs": 8000, "wall_cap": 240, "det_seeds": 8, "min_tests": 200},
         "thorough": {"runs": 40000, "wall_cap": 3000, "det_seeds": 30, "min_tests": 600}}


def generate(seed, tier):
    rng = random.Random(seed)
    mode = rng.choice(["initial", "initial", "sequences", "model"])
    K = rng.randint(1, 3)
    case = {"seed": seed, "q": rng.choice([0.0, 0.1, 0.4]), "mode": mode, "K": K, "sut_seed": rng.choice([0, 0, 1, rng.randint(0, 10**6), rng.randint(0, 10**6), rng.randint(0, 10**6), rng.randint(0, 10**6)]),
            "burn_in": rng.randint(0, 5), "thin": rng.choice([0, 1, 1, 2, 3]), "n_samples": rng.randint(1, 4 if tier == "quick" else 8)}
    if mode == "initial":
        if rng.random() < 0.07:
            # a large input: 23-40 nodes and one or two hyperedges of 12 to N-1 nodes (binomial coefficients beyond 2**63)
            spec = _gen.rand_hypergraph_spec(rng, nmin=23, nmax=40, emin=3, emax=8, smin=2, smax=5)
            for _ in range(rng.randint(1, 2)):
                e = rng.sample(spec["nodes"], rng.randint(12, len(spec["nodes"]) - 1))
                if all(set(e) != set(f) for f in spec["edges"]):
                    spec["edges"].insert(rng.randrange(len(spec["edges"]) + 1), e)
            case["large"] = True
        else:
            spec = _gen.rand_hypergraph_spec(rng, nmin=3, nmax=8, emin=2, emax=9, smin=2, smax=5)
        N = len(spec["nodes"])
        case["spec"] = spec
    else:
        N = rng.randint(4, 8)
        if mode == "model" and rng.random() < 0.02:
            N = rng.choice([520, 640, 700])  # sampling the pairwise interactions of several hundred nodes
            case["many_nodes"] = True
    case["N"] = N
    scale = rng.choice([0.6, 1.0, 2.0])
    case["u"] = [[round(scale * (0.1 + rng.random()), 3) for _ in range(K)] for _ in range(N)]
    w = [[0.0] * K for _ in range(K)]
    for a in range(K):
        for b in range(a, K):
            w[a][b] = w[b][a] = round(0.1 + rng.random(), 3)
    case["w"] = w
    if rng.random() < 0.2:
        # soft memberships inside disjoint community blocks + diagonal affinity: cross-block hyperedges have a Poisson
        # parameter that is 0 in exact arithmetic (and may round to a tiny negative number)
        K = 4
        case["K"] = K
        half = N // 2
        case["u"] = [[round(0.1 + rng.random(), 3) if (k < 2) == (i < half) else 0.0 for k in range(K)] for i in range(N)]
        case["w"] = [[round(0.1 + rng.random(), 3) if a == b else 0.0 for b in range(K)] for a in range(K)]
        case["block_structured"] = True
    if rng.random() < 0.08 and K >= 2:
        # purely disassortative model with hard memberships: w has a ZERO diagonal, every node sits in one community
        K = case["K"]
        case["u"] = [[round(0.3 + rng.random(), 3) if k == i % K else 0.0 for k in range(K)] for i in range(N)]
        case["w"] = [[0.0 if a == b else round(0.2 + rng.random(), 3) for b in range(K)] for a in range(K)]
        case["w"] = [[case["w"][min(a, b)][max(a, b)] for b in range(K)] for a in range(K)]
        case.pop("block_structured", None)
        case["disassortative"] = True
    case["max_size"] = rng.randint(2, min(N, 5))
    if case.get("many_nodes"):
        case["max_size"] = 2
        case["u"] = [[round(0.02 + 0.05 * rng.random(), 4) for _ in range(case["K"])] for _ in range(N)]
        case["burn_in"], case["thin"], case["n_samples"] = 0, 0, 1
        case.pop("disassortative", None)
    if rng.random() < 0.25:
        case["exact_dyadic"] = False  # the non-default approximate sampling of the pairwise interactions
    if mode == "sequences":
        # size sequence first, then a degree sequence with the same total: realisable (from an actual
        # hypergraph) in half of the runs, merely total-matching in the other half
        dim = {}
        if rng.random() < 0.07:
            N = case["N"] = rng.randint(23, 40)
            case["u"] = [[round(scale * (0.1 + rng.random()), 3) for _ in range(K)] for _ in range(N)]
            case.pop("block_structured", None)
            if len(case["w"]) != K:
                K = case["K"] = len(case["w"])
                case["u"] = [[round(scale * (0.1 + rng.random()), 3) for _ in range(K)] for _ in range(N)]
            dim[rng.randint(12, N - 1)] = 1
            case["large"] = True
        for _ in range(rng.randint(2, 6)):
            s = rng.randint(2, min(N, 4))
            dim[s] = dim.get(s, 0) + 1
        total = sum(s * c for s, c in dim.items())
        if rng.random() < 0.5:
            deg = [0] * N
            for s, c in dim.items():
                for _ in range(c):
                    for n in rng.sample(range(N), s):
                        deg[n] += 1
        else:
            deg = [0] * N
            for _ in range(total):
                deg[rng.randrange(N)] += 1
        if rng.random() < 0.7:
            case["max_size"] = max(case["max_size"], max(dim))
        # else: the model's explicit maximum size may lie below a conditioned size (the sequences are what binds then)
        if rng.random() < 0.35:
            # the sampler object is reused: a first sample() call on a realisable pair precedes the one that is checked
            d0 = {}
            for _ in range(rng.randint(2, 4)):
                s0 = rng.randint(2, min(N, 3))
                d0[s0] = d0.get(s0, 0) + 1
            g0 = [0] * N
            for s0, c0 in d0.items():
                for _ in range(c0):
                    for n in rng.sample(range(N), s0):
                        g0[n] += 1
            case["first"] = {"dim_seq": [[a, b] for a, b in sorted(d0.items())], "deg_seq": g0}
        case["dim_seq"] = [[s, c] for s, c in sorted(dim.items())]
        case["deg_seq"] = deg
        case["allow_rescaling"] = rng.random() < 0.4
        x = rng.random()
        if x < 0.06:
            case["w"] = [[0.0] * len(case["w"]) for _ in case["w"]]  # no community interacts: every expected statistic is exactly 0
            case.pop("block_structured", None)
        elif x < 0.10:
            case["u"] = [[0.0] * len(r) for r in case["u"]]
            case.pop("block_structured", None)
    return case


def _norm(x):
    return x.item() if isinstance(x, np.generic) else x


def _sample_obs(h):
    rows = []
    for e in h.get_edges():
        rows.append([sorted(tag(_norm(n)) for n in e), repr(_norm(h.get_weight(e)))])
    return sorted(rows)


_ARGS = {}


def _run(case, salt):
    from hypergraphx.generation.hy_mmsbm_sampling import HyMMSBMSampler

    fac = Facade(case["seed"], q=case["q"], budget=400000)
    u = np.array(case["u"], dtype=float)
    w = np.array(case["w"], dtype=float)
    out = {"samples": [], "raised": None, "matching": None}
    with fac:
        if salt:
            fac.perturb(4)
        sampler = HyMMSBMSampler(u=u, w=w, max_hye_size=case["max_size"] if case["mode"] != "initial" else None,
                                 burn_in_steps=case["burn_in"], intermediate_steps=case["thin"], seed=case["sut_seed"],
                                 **({"exact_dyadic_sampling": False} if case.get("exact_dyadic") is False else {}))
        kw = {}
        init = None
        if case["mode"] == "initial":
            init = _gen.build_hypergraph(case["spec"])
            kw["initial_hyg"] = init
        elif case["mode"] == "sequences":
            # the caller's own objects: the same array and the same dict go to both same-seed runs
            key = (case["seed"], "seqargs")
            if key not in _ARGS:
                _ARGS.clear()
                _ARGS[key] = (np.array(case["deg_seq"]), {s: c for s, c in case["dim_seq"]})
            kw["deg_seq"], kw["dim_seq"] = _ARGS[key]
            if case.get("allow_rescaling"):
                kw["allow_rescaling"] = True
        if case.get("first"):
            try:
                g0 = sampler.sample(deg_seq=np.array(case["first"]["deg_seq"]), dim_seq={a: b for a, b in case["first"]["dim_seq"]})
                next(g0)
                out["first_matching"] = sampler.matching_sequences
            except DrawBudgetExceeded:
                raise
            except Exception as e:  # noqa
                out["first_raised"] = type(e).__name__
        try:
            gen = sampler.sample(**kw)
            for _ in range(case["n_samples"]):
                out["samples"].append(next(gen))
        except DrawBudgetExceeded:
            raise
        except Exception as e:  # noqa
            out["raised"] = type(e).__name__ + ":" + str(e)[:80]
        out["matching"] = sampler.matching_sequences
        out["accepted"] = sampler.accept_count
        out["rejected"] = sampler.reject_count
    return out, fac, init


def _check_sample(case, h, idx, matching, init):
    N = case["N"]
    ctx = {"sample": idx, "mode": case["mode"], "edges": None}
    try:
        edges = [tuple(_norm(n) for n in e) for e in h.get_edges()]
        weights = [h.get_weight(e) for e in h.get_edges()]
    except Exception as e:  # noqa
        raise Violation("C16/sample/unreadable", {"exception": repr(e), **ctx})
    ctx["edges"] = short(edges, 300)
    if not h.is_weighted():
        raise Violation("C16/sample/not-weighted", ctx)
    for wt in weights:
        v = _norm(wt)
        if not isinstance(v, int) or isinstance(v, bool) or v <= 0:
            raise Violation("C16/sample/weight-not-positive-integer", {"weight": repr(wt), **ctx})
    if len({frozenset(e) for e in edges}) != len(edges):
        raise Violation("C16/sample/repeated-hyperedge", ctx)
    allowed = set(case["spec"]["nodes"]) if case["mode"] == "initial" else set(range(N))
    for e in edges:
        if len(set(e)) != len(e):
            raise Violation("C16/sample/repeated-node", ctx)
        if len(e) < 2:
            raise Violation("C16/sample/size-below-two", ctx)
        if case["mode"] == "model" and len(e) > case["max_size"]:
            raise Violation("C16/sample/size-above-max", {"max_size": case["max_size"], **ctx})
        if any(n not in allowed for n in e):
            raise Violation("C16/sample/foreign-node", ctx)
    if case["mode"] == "model":
        return False
    # conditioning
    if case["mode"] == "initial":
        cond_edges = [tuple(e) for e in case["spec"]["edges"]]
        cdeg = Counter(n for e in cond_edges for n in e)
        csize = Counter(len(e) for e in cond_edges)
        degrees_binding = True
    else:
        cdeg = Counter({i: d for i, d in enumerate(case["deg_seq"])})
        csize = Counter({s: c for s, c in case["dim_seq"]})
        degrees_binding = matching is True
    if case["mode"] == "initial" and case["burn_in"] == 0 and case["thin"] == 0:
        # no chain move has been made: the configuration is the initial one, nothing can have coincided, so the sample
        # must consist of exactly the initial hyperedges (hence exactly the conditioned degrees and sizes)
        want = sorted(sorted(tag(n) for n in e) for e in cond_edges)
        got = sorted(sorted(tag(n) for n in e) for e in edges)
        if want != got:
            raise Violation("C16/conditioning/no-move-sample-differs-from-initial", {"initial": short(want, 300), **ctx})
    deg = Counter(n for e in edges for n in e)
    size = Counter(len(e) for e in edges)
    for s, c in size.items():
        if c > csize.get(s, 0):
            raise Violation("C16/conditioning/size-count-exceeded", {"size": s, "count": c, "conditioned": csize.get(s, 0), **ctx})
    if degrees_binding:
        for n, d in deg.items():
            if d > cdeg.get(n, 0):
                raise Violation("C16/conditioning/degree-exceeded", {"node": short(n), "degree": d, "conditioned": cdeg.get(n, 0),
                                                                       "matching_sequences": matching, **ctx})
    # hyperedges are only ever lost by coinciding with an identical one, which leaves at least one hyperedge of that
    # size, containing the same nodes, in the sample: no conditioned size and no conditioned node may vanish altogether
    for s, c in csize.items():
        if c >= 1 and size.get(s, 0) == 0:
            raise Violation("C16/conditioning/size-vanished", {"size": s, "conditioned": c, "matching_sequences": matching, **ctx})
    if degrees_binding:
        for n, d in cdeg.items():
            if d >= 1 and deg.get(n, 0) == 0:
                raise Violation("C16/conditioning/node-vanished", {"node": short(n), "conditioned": d, **ctx})
    total = sum(csize.values())
    if degrees_binding and len(edges) < total and total - len(edges) <= 4:
        # a hyperedge is missing only because it coincided with an identical one that IS in the sample: the degree
        # deficits must be the sum of the indicator vectors of (total - len) hyperedges of the sample, size by size
        need = {s: csize.get(s, 0) - size.get(s, 0) for s in csize if csize.get(s, 0) > size.get(s, 0)}
        deficit = {n: cdeg.get(n, 0) - deg.get(n, 0) for n in set(cdeg) | set(deg) if cdeg.get(n, 0) != deg.get(n, 0)}
        cands = [e for e in edges if need.get(len(e), 0) > 0]

        def solve(need, deficit, start):
            if not any(need.values()):
                return not deficit
            for idx in range(start, len(cands)):
                e = cands[idx]
                if need.get(len(e), 0) > 0 and all(deficit.get(n, 0) > 0 for n in e):
                    d2 = dict(deficit)
                    for n in e:
                        d2[n] -= 1
                        if d2[n] == 0:
                            del d2[n]
                    n2 = dict(need)
                    n2[len(e)] -= 1
                    if solve(n2, d2, idx):
                        return True
            return False

        if any(v < 0 for v in deficit.values()) or not solve(need, deficit, 0):
            raise Violation("C16/conditioning/missing-hyperedges-not-explained-by-coincidences", {
                "missing_per_size": need, "degree_deficits": short({str(k): v for k, v in deficit.items()}),
                "matching_sequences": matching, **ctx})
    full = len(edges) == total
    if full and degrees_binding:
        if {n: d for n, d in deg.items() if d} != {n: d for n, d in cdeg.items() if d} or dict(size) != {s: c for s, c in csize.items() if c}:
            raise Violation("C16/conditioning/not-exact-although-nothing-coincided", {
                "degrees": short(dict(deg)), "conditioned_degrees": short(dict(cdeg)), "sizes": dict(size), "conditioned_sizes": dict(csize), **ctx})
    return full


def execute(case):
    sut()
    stats = {"samples": 0, "no_sample": 0, "full_samples": 0, "accepted_moves": 0, "rejected_moves": 0, "not_matching": 0}
    try:
        try:
            a, fa, init = _run(case, salt=False)
            b, fb, _ = _run(case, salt=True)
        except DrawBudgetExceeded as e:
            raise Violation("C16/liveness-draw-budget", {"why": str(e), "mode": case["mode"]})
        if case["mode"] == "sequences" and (case["seed"], "seqargs") in _ARGS:
            dg, dm = _ARGS[(case["seed"], "seqargs")]
            if dg.tolist() != list(case["deg_seq"]) or dm != {s: c for s, c in case["dim_seq"]}:
                raise Violation("C16/argument-modified", {"deg_seq_now": dg.tolist(), "dim_seq_now": short(dm),
                                                          "deg_seq": case["deg_seq"], "dim_seq": case["dim_seq"]})
        if a["raised"] != b["raised"] or len(a["samples"]) != len(b["samples"]):
            raise Violation("C16/same-seed/different-outcome", {"first": a["raised"], "second": b["raised"],
                                                                "n_first": len(a["samples"]), "n_second": len(b["samples"])})
        for i, (x, y) in enumerate(zip(a["samples"], b["samples"])):
            if _sample_obs(x) != _sample_obs(y):
                raise Violation("C16/same-seed/different-sample", {"index": i, "first": short(_sample_obs(x), 300), "second": short(_sample_obs(y), 300)})
        if a["raised"]:
            stats["no_sample"] += 1
            stats.setdefault("raise_kinds", {})
            k = a["raised"].split(":")[0]
            stats["raise_kinds"][k] = stats["raise_kinds"].get(k, 0) + 1
        for i, h in enumerate(a["samples"]):
            full = _check_sample(case, h, i, a["matching"], init)
            stats["samples"] += 1
            stats["full_samples"] += int(bool(full))
        if case["mode"] == "initial" and init is not None:
            if sorted(sorted(map(tag, e)) for e in init.get_edges()) != sorted(sorted(map(tag, e)) for e in case["spec"]["edges"]):
                raise Violation("C16/initial-hypergraph-modified", {})
        if a["matching"] is False:
            stats["not_matching"] += 1
        if case.get("first"):
            stats["reused_sampler"] = stats.get("reused_sampler", 0) + 1
        if case.get("block_structured"):
            stats["block_structured_models"] = stats.get("block_structured_models", 0) + 1
        stats["accepted_moves"] += a.get("accepted", 0)
        stats["rejected_moves"] += a.get("rejected", 0)
    except Violation as v:
        return {"violation": {"sig": v.sig, "detail": v.detail}, "digest": "violation:" + v.sig, "stats": {},
                "sample": {"case": case}}
    fst = fa.stats()
    return {"violation": None, "digest": digest([case["mode"], fa.digest(), [_sample_obs(h) for h in a["samples"]]]),
            "stats": {"c16": stats, "faults": fst["overrides"], "draws": fst["draws"]},
            "nontrivial": stats["samples"] >= 1 and (stats["accepted_moves"] >= 1 or sum(fst["overrides"].values()) >= 1),
            "sample": {"case": {k: v for k, v in case.items() if k not in ("u", "w")}, "draw_trace_head": [short(x, 100) for x in fa.head[:4]]}}


def simplify(case):
    c = json.loads(json.dumps(case))
    if case.get("q", 0) > 0:
        c2 = dict(c)
        c2["q"] = 0.0
        yield c2
    for fld in ("n_samples", "burn_in", "thin"):
        if case[fld] > (1 if fld == "n_samples" else 0):
            c2 = dict(c)
            c2[fld] = case[fld] - 1
            yield c2
    if "spec" in case:
        for i in range(len(case["spec"]["edges"])):
            if len(case["spec"]["edges"]) > 2:
                c2 = json.loads(json.dumps(c))
                del c2["spec"]["edges"][i]
                yield c2


def sim_time(stats):
    c = stats.get("c16", {})
    return {"unit": "MCMC chain moves (accepted + rejected) of the first run of each configuration", "value": c.get("accepted_moves", 0) + c.get("rejected_moves", 0)}
