"""C13 - configuration models preserve degrees and sizes (Engine R, prefix replay)."""
import contextlib
import io
import json
import random
from collections import Counter

from ..core import Violation, derive, digest, short, sut, tag
from ..rngsim import DrawBudgetExceeded, Facade
from . import _gen

LEVEL = "exploration"
COMPONENTS = {
    "real": ["hypergraphx.generation.configuration_model (stub/edge-labelled MCMC)",
             "hypergraphx.generation.directed_configuration_model", "Hypergraph / DirectedHypergraph"],
    "stub": ["front-ends random.* and numpy.random.* (Facade: delegates to private seeded generators, logs every draw, "
             "substitutes legal-but-rare outcomes for callers inside hypergraphx)"],
    "simulator_owned": ["every random draw of the chain (pair choice i,j; coin of the pairwise reshuffle; randint/choice of the directed swaps)",
                        "n_steps as schedule: prefixes 0..K of one execution by prefix replay"],
}
ASSUMPTIONS = [
    "label in {'edge','stub'} (the quantifier's); label='vertex' is not exercised",
    "inputs: 3-8 nodes, 2-10 duplicate-free hyperedges of sizes 1-5, any comparable labels; directed: disjoint non-empty source/target",
    "with size/order the requested size occurs in the input",
    "adversarial draws have non-zero probability under the real distribution; none after 75% of the draw budget",
]
RULE = ("one run = one input hypergraph and one parameter set; the chain is executed for n_steps = 0..K under the same seeded draw "
        "stream (prefix replay; the draw traces must be prefix-ordered) and the degree/size invariants are checked on every prefix; "
        "directed runs call the model once per seed variant.  Non-trivial: >= 1 prefix whose output differs from the input and "
        ">= 1 adversarial draw or coincidence; distinct = distinct draw-trace digests.")
TIERS = {"quick": {"runs": 8000, "wall_cap": 240, "det_seeds": 10, "min_tests": 300},
         "thorough": {"runs": 40000, "wall_cap": 3000, "det_seeds": 30, "min_tests": 1000}}


def generate(seed, tier):
    rng = random.Random(seed)
    q = rng.choice([0.0, 0.05, 0.3])
    if rng.random() < 0.3:
        if rng.random() < 0.15:
            # a large directed input: source and target sets of at least 8, 16 or 24 nodes each
            side = rng.choice([8, 8, 16, 24])  # smallest source / target set
            n = rng.randint(2 * side + 2, 2 * side + 8)
            nodes = list(range(n))
            edges = []
            for _ in range(rng.randint(3, 5)):
                ns = rng.sample(nodes, rng.randint(2 * side, n))
                cut = rng.randint(side, len(ns) - side)
                edges.append([ns[:cut], ns[cut:]])
            spec = {"nodes": nodes, "edges": edges, "labels": "int"}
            return {"mode": "directed", "seed": seed, "q": q, "spec": spec, "variants": rng.randint(1, 2)}
        dspec = _gen.rand_directed_spec(rng)
        if rng.random() < 0.2 and dspec["edges"]:
            # one input hyperedge has a node on BOTH sides (the model itself produces such hyperedges; as input they are
            # as legal as any): its two incidences count separately
            i = rng.randrange(len(dspec["edges"]))
            s_, t_ = dspec["edges"][i]
            if s_[0] not in t_:
                cand = [list(s_), list(t_) + [s_[0]]]
                if all((set(cand[0]), set(cand[1])) != (set(a), set(b)) for a, b in dspec["edges"]):
                    dspec["edges"][i] = cand
        return {"mode": "directed", "seed": seed, "q": q, "spec": dspec,
                "variants": rng.randint(1, 4)}
    if rng.random() < 0.012:
        # one hyperedge of 256-300 nodes next to small ones (sizes that only differ modulo 256, among others)
        n = rng.randint(300, 330)
        big = rng.choice([256, 258, 259, 260, 300])
        nodes = list(range(n))
        edges = [rng.sample(nodes, big)] + [rng.sample(nodes, k) for k in (big - 256 if big > 257 else 2, 2, 3, 4, 3, 2)]
        edges = [e for i, e in enumerate(edges) if len(e) >= 1 and all(set(e) != set(f) for f in edges[:i])]
        spec = {"nodes": nodes, "edges": edges, "labels": "int"}
        return {"mode": "undirected", "seed": seed, "q": q, "spec": spec, "label": rng.choice(["edge", "stub"]), "detailed": True,
                "K": rng.randint(20, 40), "prefixes": [0, 1, 5, 20], "huge": True}
    if rng.random() < 0.08:
        spec = _gen.rand_hypergraph_spec(rng, nmin=14, nmax=20, emin=8, emax=20, smin=2, smax=10, singletons=0.1)
    else:
        spec = _gen.rand_hypergraph_spec(rng, singletons=0.15, labels=rng.choice([None] * 6 + ["mixnum"]))
    case = {"mode": "undirected", "seed": seed, "q": q, "spec": spec,
            "label": rng.choice(["edge", "stub"]), "detailed": rng.random() < 0.6,
            "K": rng.randint(1, 40 if tier == "quick" else 400)}
    if rng.random() < 0.3:
        # a weighted input: the model is about the hyperedges, whatever their weights
        case["weights"] = [rng.choice([1, 2, 3, 0.5, 2.5, 7]) for _ in spec["edges"]]
    sizes = sorted({len(e) for e in spec["edges"]})
    x = rng.random()
    if x < 0.25:
        case["size"] = rng.choice(sizes)
    elif x < 0.5:
        case["order"] = rng.choice(sizes) - 1
    if rng.random() < 0.3:
        # the object has a past: it is reshuffled once, edited in place (one hyperedge replaced by another one, same
        # count) and reshuffled again - the second call must be about the edited content
        target = case.get("size", case["order"] + 1 if "order" in case else None)
        for _ in range(20):
            rem = rng.randrange(len(spec["edges"]))
            k = rng.randint(2, min(5, len(spec["nodes"])))
            if target is not None and len(spec["edges"][rem]) == target:
                k = target  # a size/order argument keeps at least the hyperedges of that size it had (an absent size is not claimed)
            if k > len(spec["nodes"]):
                continue
            new = rng.sample(spec["nodes"], k)
            if all(set(new) != set(e) for e in spec["edges"]):
                case["edit"] = {"remove": rem, "add": new}
                break
    if tier == "thorough" and case["K"] > 60:
        # long chains: check a sample of prefixes
        case["prefixes"] = sorted(set([0, 1, 2, case["K"]] + [rng.randint(0, case["K"]) for _ in range(40)]))
    return case


def _deg_by_size(edges):
    d = Counter()
    for e in edges:
        for n in e:
            d[(tag(n), len(e))] += 1
    return d


def _check_undirected(case, h_in, h_out, k):
    ein = [tuple(e) for e in h_in.get_edges()]
    eout = [tuple(e) for e in h_out.get_edges()]
    ctx = {"n_steps": k, "input": short(sorted(map(sorted, ein)), 400), "output": short(sorted(map(sorted, eout)), 400)}
    for e in eout:
        if len(set(e)) != len(e):
            raise Violation("C13/undirected/repeated-node-in-hyperedge", {"edge": short(e), **ctx})
    din, dout = _deg_by_size(ein), _deg_by_size(eout)
    same_count = len(eout) == len(ein)
    if case["detailed"]:
        for key, v in dout.items():
            if v > din.get(key, 0):
                raise Violation("C13/undirected/degree-increased", {"node_size": key, "in": din.get(key, 0), "out": v, **ctx})
        if same_count and din != dout:
            bad = sorted(k2 for k2 in set(din) | set(dout) if din.get(k2, 0) != dout.get(k2, 0))[:3]
            raise Violation("C13/undirected/degree-not-preserved", {"differs": short(bad), **ctx})
        # the same through the public degree API (a node duplicated inside a hyperedge cannot hide)
        for n in h_in.get_nodes():
            for s in {len(e) for e in ein}:
                a = h_in.degree(n, size=s)
                b = h_out.degree(n, size=s) if h_out.check_node(n) else 0
                if b > a or (same_count and a != b):
                    raise Violation("C13/undirected/degree-api", {"node": short(n), "size": s, "in": a, "out": b, **ctx})
    else:
        tin, tout = Counter(), Counter()
        for (n, s), v in din.items():
            tin[n] += v
        for (n, s), v in dout.items():
            tout[n] += v
        for n, v in tout.items():
            if v > tin.get(n, 0):
                raise Violation("C13/undirected/total-degree-increased", {"node": n, "in": tin.get(n, 0), "out": v, **ctx})
        if same_count and tin != tout:
            raise Violation("C13/undirected/total-degree-not-preserved", ctx)
    if same_count and sorted(len(e) for e in ein) != sorted(len(e) for e in eout):
        raise Violation("C13/undirected/size-multiset", ctx)
    target = case.get("size", case["order"] + 1 if "order" in case else None)
    if target is not None:
        others_in = sorted(sorted(map(tag, e)) for e in ein if len(e) != target)
        others_out = sorted(sorted(map(tag, e)) for e in eout if len(e) != target)
        if others_in != others_out:
            raise Violation("C13/undirected/other-sizes-not-intact", {"size": target, **ctx})
    return sorted(sorted(map(tag, e)) for e in eout) != sorted(sorted(map(tag, e)) for e in ein), len(eout) < len(ein)


def _run_cm(case, k):
    from hypergraphx.generation.configuration_model import configuration_model

    if case.get("weights"):
        h_in = _gen.build_hypergraph(case["spec"], weights=case["weights"], weighted=True)
    else:
        h_in = _gen.build_hypergraph(case["spec"])
    fac = Facade(case["seed"], q=case["q"])
    kw = {"n_steps": k, "label": case["label"], "detailed": case["detailed"]}
    if "size" in case:
        kw["size"] = case["size"]
    if "order" in case:
        kw["order"] = case["order"]
    with fac, contextlib.redirect_stdout(io.StringIO()):
        h_out = configuration_model(h_in, **kw)
    return h_in, h_out, fac


def execute(case):
    sut()
    try:
        if case["mode"] == "directed":
            return _exec_directed(case)
        stats = {"prefixes": 0, "changed": 0, "coincided": 0, "unreplayable": 0}
        prev_heads = None
        traces = []
        fstats = {}
        ndraws_prev = -1
        ks = case.get("prefixes") or range(0, case["K"] + 1)
        for k in ks:
            try:
                h_in, h_out, fac = _run_cm(case, k)
            except DrawBudgetExceeded as e:
                raise Violation("C13/undirected/liveness-draw-budget", {"n_steps": k, "why": str(e)})
            except Exception as e:  # noqa
                raise Violation("C13/undirected/raised", {"n_steps": k, "exception": repr(e)})
            if fac.ndraws < ndraws_prev:
                stats["unreplayable"] += 1
            ndraws_prev = fac.ndraws
            changed, fewer = _check_undirected(case, h_in, h_out, k)
            stats["prefixes"] += 1
            stats["changed"] += int(changed)
            stats["coincided"] += int(fewer)
            traces.append(fac.digest())
            fstats = fac.stats()
            head = fac.head
        if case.get("edit"):
            from hypergraphx.generation.configuration_model import configuration_model

            h = _gen.build_hypergraph(case["spec"], weights=case.get("weights"), weighted=bool(case.get("weights")))
            kw = {"n_steps": case["K"], "label": case["label"], "detailed": case["detailed"]}
            for f in ("size", "order"):
                if f in case:
                    kw[f] = case[f]
            fac = Facade(derive(case["seed"], "edit"), q=case["q"])
            try:
                with fac, contextlib.redirect_stdout(io.StringIO()):
                    configuration_model(h, **kw)
                    h.remove_edge(tuple(case["spec"]["edges"][case["edit"]["remove"]]))
                    if case.get("weights"):
                        h.add_edge(tuple(case["edit"]["add"]), weight=3)
                    else:
                        h.add_edge(tuple(case["edit"]["add"]))
                    h_out = configuration_model(h, **kw)
            except DrawBudgetExceeded as e:
                raise Violation("C13/undirected/liveness-draw-budget", {"n_steps": case["K"], "why": str(e), "after": "in-place edit"})
            except Exception as e:  # noqa
                raise Violation("C13/undirected/raised", {"n_steps": case["K"], "exception": repr(e), "after": "in-place edit"})
            _check_undirected(case, h, h_out, case["K"])
            stats["second_call_after_inplace_edit"] = 1
        # the argument must not be modified
        return {"violation": None, "digest": digest([case["mode"], traces]),
                "stats": {"c13": stats, "faults": fstats.get("overrides", {}), "draws": fstats.get("draws", {})},
                "nontrivial": stats["changed"] >= 1 and (sum(fstats.get("overrides", {}).values()) >= 1 or stats["coincided"] >= 1),
                "sample": {"case": {k: v for k, v in case.items() if k != "prefixes"}, "draw_trace_head": head}}
    except Violation as v:
        return {"violation": {"sig": v.sig, "detail": v.detail}, "digest": "violation:" + v.sig, "stats": {},
                "sample": {"case": case}}


def _exec_directed(case):
    from hypergraphx.generation.directed_configuration_model import directed_configuration_model
    from hypergraphx.measures.directed import in_degree, out_degree

    stats = {"directed_calls": 0, "changed": 0, "coincided": 0}
    traces = []
    fstats = {}
    for v in range(case["variants"]):
        h_in = _gen.build_directed(case["spec"])
        fac = Facade(derive(case["seed"], "variant", v), q=case["q"])
        try:
            with fac:
                h_out = directed_configuration_model(h_in)
        except DrawBudgetExceeded as e:
            raise Violation("C13/directed/liveness-draw-budget", {"why": str(e)})
        except Exception as e:  # noqa
            raise Violation("C13/directed/raised", {"exception": repr(e), "variant": v})
        ein = [(tuple(s), tuple(t)) for s, t in h_in.get_edges()]
        eout = [(tuple(s), tuple(t)) for s, t in h_out.get_edges()]
        ctx = {"variant": v, "input": short(ein, 400), "output": short(eout, 400)}
        for s_, t_ in eout:
            if len(set(s_)) != len(s_) or len(set(t_)) != len(t_):
                # a node listed twice on one side hides a lost incidence from every count by position
                raise Violation("C13/directed/repeated-node-in-hyperedge", {"edge": short([s_, t_]), **ctx})
        if sorted(map(repr, ein)) != sorted(repr((tuple(sorted(s, key=tag)), tuple(sorted(t, key=tag)))) for s, t in
                                            [(tuple(a), tuple(b)) for a, b in case["spec"]["edges"]]):
            pass  # input canonical forms differ only by ordering; not a verdict
        indeg_in, outdeg_in, indeg_out, outdeg_out = Counter(), Counter(), Counter(), Counter()
        for s, t in ein:
            for n in s:
                indeg_in[tag(n)] += 1
            for n in t:
                outdeg_in[tag(n)] += 1
        for s, t in eout:
            for n in s:
                indeg_out[tag(n)] += 1
            for n in t:
                outdeg_out[tag(n)] += 1
        for name, a, b in (("in", indeg_in, indeg_out), ("out", outdeg_in, outdeg_out)):
            for n, val in b.items():
                if val > a.get(n, 0):
                    raise Violation(f"C13/directed/{name}-degree-increased", {"node": n, "in": a.get(n, 0), "out": val, **ctx})
        same = len(eout) == len(ein)
        if same:
            if indeg_in != indeg_out or outdeg_in != outdeg_out:
                raise Violation("C13/directed/degree-not-preserved", ctx)
            if sorted((len(s), len(t)) for s, t in ein) != sorted((len(s), len(t)) for s, t in eout):
                raise Violation("C13/directed/shape-multiset", ctx)
            for n in h_in.get_nodes():
                if h_out.check_node(n):
                    a1, b1 = in_degree(h_in, n), in_degree(h_out, n)
                    a2, b2 = out_degree(h_in, n), out_degree(h_out, n)
                    if a1 != b1 or a2 != b2:
                        raise Violation("C13/directed/degree-api", {"node": short(n), "in": [a1, a2], "out": [b1, b2], **ctx})
        # the argument is not modified
        if [(tuple(s), tuple(t)) for s, t in h_in.get_edges()] != ein:
            raise Violation("C13/directed/argument-modified", ctx)
        stats["directed_calls"] += 1
        stats["changed"] += int(sorted(map(repr, ein)) != sorted(map(repr, eout)))
        stats["coincided"] += int(not same)
        traces.append(fac.digest())
        fstats = fac.stats()
        head = fac.head
    return {"violation": None, "digest": digest(["directed", traces]),
            "stats": {"c13": stats, "faults": fstats.get("overrides", {}), "draws": fstats.get("draws", {})},
            "nontrivial": stats["changed"] >= 1 and (sum(fstats.get("overrides", {}).values()) >= 1 or stats["coincided"] >= 1),
            "sample": {"case": case, "draw_trace_head": head}}


def simplify(case):
    c = json.loads(json.dumps(case))
    if case.get("q", 0) > 0:
        c2 = dict(c)
        c2["q"] = 0.0
        yield c2
    if case.get("edit"):
        c2 = json.loads(json.dumps(c))
        c2.pop("edit")
        yield c2
    if case["mode"] == "undirected":
        if case["K"] > 1:
            for k in (1, case["K"] // 2, case["K"] - 1):
                if 0 < k < case["K"]:
                    c2 = json.loads(json.dumps(c))
                    c2["K"] = k
                    c2.pop("prefixes", None)
                    yield c2
    else:
        if case["variants"] > 1:
            c2 = dict(c)
            c2["variants"] = case["variants"] - 1
            yield c2
    for i in range(len(case["spec"]["edges"])):
        if len(case["spec"]["edges"]) > 2:
            c2 = json.loads(json.dumps(c))
            del c2["spec"]["edges"][i]
            yield c2


def sim_time(stats):
    return {"unit": "chain prefixes executed (each prefix k re-runs k MCMC steps) + directed model calls",
            "value": stats.get("c13", {}).get("prefixes", 0) + stats.get("c13", {}).get("directed_calls", 0)}
