import os
import sys
import traceback

from . import core


def main(argv):
    if not argv:
        print("usage: ./check <Cxx|setup|selftest-...> [quick|thorough] | --replay <file>")
        return 2
    try:
        if argv[0] == "--replay":
            core.sut()
            return core.replay_file(argv[1])
        if argv[0] == "--digests":
            core.sut()
            return core.print_digests(argv[1], int(argv[2]))
        if argv[0] == "--c07-traces":
            core.sut()
            from .props import C07

            for i in range(int(argv[1])):
                case = C07.generate(core.run_seed("C07", 20_000_000 + i), argv[2])
                try:
                    print("TRACE " + core.digest(C07.trace_of(case)), flush=True)
                except core.Violation as v:  # reported by the batch itself; here only hash-seed independence matters
                    print("TRACE violation:" + v.sig, flush=True)
            return 0
        if argv[0] == "--c07-trace":
            core.sut()
            import json

            from .props import C07

            try:
                print("TRACE " + core.digest(C07.trace_of(json.loads(argv[1]))), flush=True)
            except core.Violation as v:
                print("TRACE violation:" + v.sig, flush=True)
            return 0
        if argv[0] == "setup":
            h = core.sut()
            import numpy, scipy, sklearn  # noqa

            print("setup ok:", h.__file__, "python", sys.version.split()[0])
            os.makedirs(core.EVIDENCE_DIR, exist_ok=True)
            os.makedirs(core.REPLAY_DIR, exist_ok=True)
            return 0
        if argv[0].startswith("selftest"):
            from . import selftests

            return selftests.main(argv)
        pid = argv[0]
        tier = argv[1] if len(argv) > 1 else os.environ.get("VERIF_TIER", "quick")
        if tier not in ("quick", "thorough"):
            tier = "quick"
        return core.run_check(pid, tier)
    except core.HarnessError as e:
        print(f"HARNESS: {e}", flush=True)
        return core.EXIT_HARNESS
    except Exception:
        traceback.print_exc()
        print("HARNESS: unexpected exception in the machinery", flush=True)
        return core.EXIT_HARNESS
