#!/usr/bin/env python3
"""Regenerates MANIFEST.json from the table below (kept as code so that it is always valid)."""
import json, os
HERE = os.path.dirname(os.path.abspath(__file__))
CLAIMED = {
 "C01": ("exploration", "Engine H", "seeded history simulation with rejected-operation injection; refinement against a set+map reference model after every operation",
         "Every public mutator of Hypergraph (valid and to-be-rejected calls, batches with a bad member at a sampled position, copy() forks, clear) is driven by a seeded single-caller scheduler over up to 4 live objects; after every operation the complete public observation (all listings x size/order 1..6 x up_to, weights, incidence, neighbours, degrees, statistics, membership, metadata) of every live object is compared with a set+map reference model.  Sampling, not proof; DESIGN.md 4, 7/C01.",
         "Reference semantics = DESIGN.md Appendix A; ambiguous steps (4.5) are never generated; universe <= 7 labels, history <= 60/150 ops; single caller, no threads."),

 "C02": ("exploration", "Engine H", "seeded history simulation with rejected-operation injection; refinement against a (source set, target set)->(weight, metadata) reference model after every operation",
         "Same machinery as C01 on DirectedHypergraph: role-specific listings (source/target hyperedges per node and filter), in/out degree, neighbours as nodes, check_node as a bool for present and absent labels, node metadata compared after every hyperedge insertion.  Sampling, not proof.",
         "Reference semantics = DESIGN.md Appendix A; only keep_edges=False removals (quantifier); ambiguous steps (4.5) never generated; universe <= 7, history <= 60/150."),
 "C03": ("exploration", "Engine H", "seeded history simulation with rejected operations and illegal times; refinement against a (time, node set) reference model; windows, snapshots and aggregate(w) checked as derivations inside histories",
         "Same machinery on TemporalHypergraph; every window (a,b) with 0<=a<=b<=7 is part of the observation after every step; aggregate(w), w in 1..8 and subhypergraph(window) are derivation steps compared (full observation of every returned Hypergraph) with the windows of the model, followed by re-observation of the source.  Sampling, not proof.",
         "Metadata of aggregated/snapshot hypergraphs and aggregate() on a hypergraph without hyperedges are not asserted (statement silent); snapshot node sets not asserted."),
 "C04": ("exploration", "Engine H", "seeded history simulation with rejected operations; refinement against a (node set, layer) reference model; aggregation and overlap checked as derivations inside histories",
         "Same machinery on MultiplexHypergraph with the operation list of its quantifier; weighted batches placing one node set in two layers are valid operations; aggregated_hypergraph() (full observation) and edge_overlap of every node set in use and one absent are derivation steps; the source, including its hypergraph metadata, is re-observed afterwards.  Sampling, not proof.",
         "Metadata of the aggregated hypergraph is not asserted; layers in use checked as: superset of layers with a record, subset of layers ever inserted."),

 "C05": ("exploration", "Engine H", "seeded history simulation (drive-only) with extraction steps and copy() forks; expected extraction recomputed from the source's own public observation; non-interference between live objects after every operation",
         "Partly claimed.  Histories drive Hypergraph / DirectedHypergraph objects into states only histories reach (id holes, stale tables); at extraction steps subhypergraph(nodes), subhypergraph_by_orders, get_edges(subhypergraph=True,...) and subhypergraph_largest_component are compared by full public observation (weights, node and hyperedge metadata, node set, weightedness) with the selection recomputed from the source's observation; the source is re-observed; copy() is a fork: equal at fork time and, for the rest of the history, an operation on one object never changes the observation of another.",
         "Most steps sample one selection; one step in a quarter (quick) / half (thorough) of the runs enumerates every node subset (<= 6 nodes), every (order|size, 0..6, up_to, keep_isolated) combination and 16 order/size lists on the state reached - still not the full 'every selection on every hypergraph' quantifier; largest component only without order/size filter; hypergraph-level metadata of extractions not asserted; directed hyperedges with overlapping source and target are not generated."),
 "C07": ("exploration", "Engine H", "seeded history simulation (drive-only): batch-wide content-digest <-> hash bijection over every state reached, rebuilt twins, single-element edits, two interpreters with different PYTHONHASHSEED",
         "After every operation of every history (all four containers, detour-heavy op mix) each live object's (content digest, hash) pair enters batch-wide tables that must be functions in both directions, so any two histories meeting in one content are compared; sampled states are rebuilt in sorted and shuffled insertion order (hash equal) and receive every applicable single-element edit (hash different); the observation must be identical before and after hashing; 24/200 seeds are re-run in two fresh interpreters with PYTHONHASHSEED 0 and 12345 and must log identical hashes.",
         "Content = what the public API reports; tables are merged per round of 2400 runs; labels comparable, metadata JSON-native with string keys."),
 "C19": ("exploration", "Engine H + Engine R", "seeded history simulation with filter_hypergraph as a mutating operation checked against a reference model (C19a); get_svh under a scheduled in-process worker pool with permuted execution order, compared with the binomial definition and mp=False (C19b)",
         "Partly claimed.  C19a: filter_hypergraph is one more operation in refinement histories of all four containers (criteria over the metadata in use, missing attributes, empty criteria, both modes, keep_edges) and the history continues afterwards.  C19b: see DESIGN 7/C19.",
         "The validated set is compared with the step-up FDR rule for the default alpha only (entries exactly on the threshold skipped); keep_edges=True corner cases under the ambiguity guard; criteria values exclude None (missing attribute and None would be indistinguishable)."),

 "C06": ("fault_enumeration", "Engine H + Engine F", "simulated raw file device under the real io stack (ENOSPC/EIO at every byte offset, failing open/close, short raw reads/writes, torn files, overwrite of a longer file), driven from seeded histories; acked-save-implies-equal-load, saved-object-untouched and post-load lock-step oracles",
         "Histories drive objects of all four containers into states with removal history; d_roundtrip steps save and load through the simulated device in both formats (buffer sizes 1/7/64/8192, short raw reads/writes, overwrite of a longer file) and compare the full public observation (type, nodes incl. isolated, hyperedges with direction/time/layer, weightedness, weights, all metadata modulo the reserved keys); the loaded twin is then driven in lock step with its original.  d_faults steps enumerate, for the saved object, every write-fault byte offset for ENOSPC and EIO, a failing close, three failing opens, and every read-fault offset: a save that returns normally must load equal, the saved object must be unchanged even when the save fails, a load that returns under a read fault must equal the saved observation, and a retry on a healthy device must round-trip.  .hgr and HIF documents generated from a document model are read through the same device under every read-fault offset.",
         "Fault offsets stride 1 up to 600 (quick) / 4096 (thorough) bytes, stride 7 beyond; loading a torn file is a probe, not a verdict; real disks are replaced by the simulated raw device (no privileges for dm-flakey)."),

 "C13": ("exploration", "Engine R", "owned randomness: every draw of the MCMC chains goes through a seeded facade that also injects legal-but-rare outcomes (i == j, repeated pair, forced coincidences); per-step invariants by prefix replay over n_steps = 0..K",
         "configuration_model (label edge/stub, detailed True/False, optional size/order) is executed for every prefix n_steps = 0..K of one seeded draw stream and the statement's invariants are checked on each prefix: no (node, size) degree above the input's, exact preservation and equal size multiset when the hyperedge count is kept, hyperedges of other sizes intact; degrees are computed from get_edges() and through degree(node, size=k).  directed_configuration_model: in/out degrees never above the input's, preserved with the (|source|,|target|) multiset when the count is kept, argument untouched.",
         "label='vertex' not exercised; inputs 3-8 nodes / 2-10 hyperedges; adversarial draws only with non-zero real probability."),
 "C14": ("exploration", "Engine R", "owned randomness for the generators: seeded facade with forced repeated samples, perturbation of the global PRNG state between same-seed calls ('somebody else drew'), structural contracts checked on every output",
         "random_hypergraph / random_uniform_hypergraph (node set, sizes, distinct nodes, at most the requested count and at least one, same output for the same seed with the global streams perturbed and another generator run in between), scale_free_hypergraph (exact count per size, also with default arguments), HOADmodel (size = order+1, nodes < N, 0 <= t < time), add_random_edge(s) (only new hyperedges of the requested size over existing nodes; inplace=False leaves the argument untouched), random_shuffle(_all_orders) (node set, other sizes, sizes of rewired hyperedges, replacement nodes from the rewired hyperedges only, p = 0 changes nothing, inplace=False leaves the argument untouched).",
         "counts <= half of the possible hyperedges per size; shuffle inputs unweighted and metadata-free."),

 "C18": ("exploration", "Engine R", "owned randomness for the dynamics: every infection/recovery coin and every walk step goes through a seeded facade, with adversarial and pinned draws (0.0 / just below 1); discrete time stepped by the code itself; exact synchronous reference in the determined regimes",
         "Partly claimed.  simplicial_contagion: fractions in [0,1], first value = initial fraction, non-decreasing for mu = 0, non-increasing for beta = beta_D = 0 under fair, adversarial and pinned draws; exact trajectories against an independent synchronous reference in the eight 0/1 regimes and, with pinned draws, for arbitrary rates; initial condition untouched.  random_walk: consecutive nodes share a hyperedge also for adversarial choice outcomes; random_walk_density: each density is the previous one times the transition matrix and sums to one.",
         "Row-stochasticity, (size-1) weighting and stationarity are pure algebra: checked only as the walk's oracle on the sampled inputs (connected, labelled 0..N-1, N <= 8)."),

 "C15": ("exploration", "Engine R", "owned randomness for the EM initialisation (Generator proxy with extreme-but-legal draws); n_iter as schedule: every prefix 1..K of one EM execution by prefix replay; exact brute-force Poisson likelihood as ascent oracle",
         "Partly claimed.  fit(): supplied u / w bit-identical afterwards (and the arrays passed in unmodified), parameters finite and non-negative, w symmetric (diagonal when assortative), max size inferred from the data when not given, and - memberships supplied, w_prior = 0 - the exact Poisson log-likelihood (sum over all C(N,2..D) hyperedges, N <= 7) non-decreasing along n_iter = 1..K.",
         "poisson_params, log_kappa, expected_degree, dimension_sequence and C are pure algebra: compared with brute-force sums only on the parameter states the trajectories visit; ascent not asserted for positive priors (MAP-EM ascends the posterior)."),
 "C16": ("exploration", "Engine R", "owned randomness for the MCMC sampler (Generator proxy: pair choice, reshuffle choice, accept/reject coin with forced accept / reject stretches); every yielded sample checked; same-seed runs with the global entropy perturbed",
         "Three modes (initial hypergraph with any labels, total-matching degree+size sequences - realisable or not -, model alone); burn-in 0..5, thinning 0..3 (thinning 1 turns every chain step into a yielded sample); each yielded hypergraph: weighted, positive integer weights, no repeated hyperedge, sizes >= 2 (<= max size from the model), nodes of the model / initial hypergraph; size counts never exceeded, degrees never exceeded when an initial hypergraph is given or matching_sequences is True, exact equality when nothing coincided; two samplers with the same parameters and seed yield identical samples (or raise identically) although unseeded entropy differs.",
         "A call that raises produces no sample (counted, not a violation); N <= 8, K <= 3."),

 "C17": ("exploration", "Engine R", "owned randomness (module-local logging RandomState whose node-update permutation - the schedule - may be replaced by identity / reverse / rotation), simulated clock with jumps, stalls and backward steps, perturbed global PRNGs; same-seed identity across two differently faulted runs",
         "HypergraphMT.fit: shapes, finiteness, non-negativity, zero rows for isolated nodes, maxL = best final value of the training table, per-iteration ascent of the recorded log-likelihood (normalizeU=False), agreement of maxL with the likelihood from its definition over all C(N,d) subsets (min_value_par=0), identical (u, w, maxL, training table minus runtime) for the same seed under a different simulated clock and perturbed global PRNG state; HySC.fit: 0/1 matrix, one 1 per non-isolated row, none for isolated rows, same result for the same seed.",
         "Four rare numerical defects of Hypergraph-MT are listed known findings (row normalisation, recorded log-likelihood decreasing, maxL vs definition, AssertionError from its own psi consistency check; KNOWN_FINDINGS.txt): a change that only breaks one of these clauses is masked unless it makes the finding far more frequent than documented (rate bounds).  Threads of scikit-learn/BLAS pinned to 1."),
}
NA = {
 "C08": "pure function of the hypergraph value (degrees, components): no history, I/O, random draw, clock or interleaving for a simulator to own (DESIGN.md 8)",
 "C09": "matrix/tensor constructions are pure functions of the hypergraph value and the sorted label mapping (DESIGN.md 8)",
 "C10": "projections, line graphs and simplicial closure are pure functions of the hypergraph value (DESIGN.md 8)",
 "C11": "motif census with runs_config_model=0 is a pure function; relabelling invariance is an input symmetry, not a schedule (DESIGN.md 8)",
 "C12": "directed degrees, signature and reciprocities are pure functions of the directed hypergraph value (DESIGN.md 8)",
 "C20": "centralities are pure functions (one clause has a random power-iteration start; checking an eigen-residual for seeded starts would be input generation in simulator clothing) (DESIGN.md 8)",
}
PENDING = {}
def main():
    props = [json.loads(l)["id"] for l in open(os.path.join(HERE, "properties.jsonl"))]
    checks = []
    for pid in props:
        if pid in CLAIMED:
            cat, eng, tech, text, note = CLAIMED[pid]
            checks.append({
                "property_id": pid,
                "quick_cmd": f"./check {pid} quick",
                "thorough_cmd": f"./check {pid} thorough",
                "evidence_file": f"/verif/evidence/{pid}.json",
                "replay_cmd_template": "./check --replay {path}",
                "engine": eng,
                "level_claimed": {"category": cat, "text": text, "design_ref": f"DESIGN.md section 7 / {pid}"},
                "level_note": note + "  Extended in the seeded-change rounds 9-22 (DESIGN.md 12.8, 12.9): query schedules (sparse observation), positional and iterable argument forms, large / dense / mixed-label inputs, objects and processes with a past, per-sub-population rate bounds for the listed findings; validated against 265 seeded changes and 57 behaviour-preserving refactorings.",
                "technique": tech,
            })
    na = [{"property_id": p, "reason": NA[p]} for p in props if p in NA]
    na += [{"property_id": p, "reason": PENDING.get(p, "check not built yet in this session (designed in DESIGN.md section 7; to be claimed when its engine exists)")}
           for p in props if p not in NA and p not in CLAIMED]
    m = {
        "version": 1,
        "setup_cmd": "./check setup",
        "hooks": {"guard": "HGX_VERIF", "enable": "no source hooks: every seam is reached by rebinding module-level names from outside (DESIGN.md 1); checks export HGX_VERIF=1 for uniformity",
                  "baseline_off_cmd": "cd /repo && /venv/bin/python -m pytest -ra -q -p no:cacheprovider --timeout=900 --continue-on-collection-errors",
                  "source_commits": [], "add_only": True},
        "engines": [
            {"name": "Engine H", "path": "hgxsim/hist.py", "serves_properties": ["C01","C02","C03","C04","C05","C06","C07","C19"], "kind_free_text": "seeded history simulator: single-caller scheduler over several live objects, rejected-operation faults, reference models, ddmin replay"},
            {"name": "Engine F", "path": "hgxsim/simfs.py", "serves_properties": ["C06"], "kind_free_text": "simulated raw file device under the real io stack: ENOSPC/EIO at byte offsets, short reads/writes, failing open/close, torn files"},
            {"name": "Engine R", "path": "hgxsim/rngsim.py", "serves_properties": ["C13","C14","C15","C16","C17","C18","C19"], "kind_free_text": "owned randomness (PRNG facade with legal-but-rare draws), simulated clock, scheduled worker pool, prefix replay"},
        ],
        "checks": checks,
        "not_applicable": na,
        "notes": "Technique family: deterministic simulation with fault injection.  See DESIGN.md (section 0 verdict table, section 12 deviations).  Exit codes: 0 held, 1 VIOLATION, 2 harness error.",
    }
    json.dump(m, open(os.path.join(HERE, "MANIFEST.json"), "w"), indent=1)
    print("MANIFEST.json:", len(checks), "checks,", len(na), "not applicable")
main()
