#!/usr/bin/env python3
"""Validate a candidate seeded change and store it under /verif/seeded/<name>/.

usage: tools_seed.py <name> <property> <dir with patch.diff demo.py meta.json> [--check Cxx ...]
Steps (all in a scratch copy of /repo outside /repo and /verif, removed afterwards):
  1. demo.py exits 0 on the unmodified tree
  2. patch applies; library imports; the 430 baseline tests pass
  3. demo.py exits 1 with the patch
  4. ./check <property> quick against the patched copy (VERIF_REPO) -> caught or missed
"""
import json, os, shutil, subprocess, sys, tempfile, time

PY = "/venv/bin/python"
def run(cmd, cwd, env=None, timeout=1800):
    e = dict(os.environ); e.update(env or {})
    e.update(OMP_NUM_THREADS="1", OPENBLAS_NUM_THREADS="1", MKL_NUM_THREADS="1")
    p = subprocess.run(cmd, cwd=cwd, env=e, capture_output=True, text=True, timeout=timeout)
    return p.returncode, (p.stdout + p.stderr)

def main():
    name, prop, src = sys.argv[1:4]
    checks = [prop]
    if "--check" in sys.argv:
        checks = sys.argv[sys.argv.index("--check") + 1:]
    scratch = tempfile.mkdtemp(prefix="hgxsim-seed-")
    try:
        subprocess.run(["git", "-C", "/repo", "worktree", "add", "-q", "--detach", scratch + "/wt", "HEAD"], check=True)
        wt = scratch + "/wt"
        env = {"PYTHONPATH": wt}
        shutil.copy(os.path.join(src, "demo.py"), wt + "/_demo.py")
        rc0, out0 = run([PY, "_demo.py"], wt, env)
        rc, out = run(["git", "apply", os.path.join(os.path.abspath(src), "patch.diff")], wt)
        if rc != 0:
            print("PATCH DOES NOT APPLY", out); return 2
        rci, outi = run([PY, "-c", "import hypergraphx; print(hypergraphx.__file__)"], wt, env)
        rct, outt = run([PY, "-m", "pytest", "-q", "-p", "no:cacheprovider", "--timeout=900"], wt, env)
        tests = outt.strip().splitlines()[-1] if outt.strip() else ""
        rc1, out1 = run([PY, "_demo.py"], wt, env)
        results = {}
        for c in checks:
            t0 = time.time()
            ev = tempfile.mkdtemp(prefix="hgxsim-ev-")
            rcc, outc = run(["/verif/check", c, "quick"], "/verif", {"VERIF_REPO": wt, "VERIF_EVIDENCE_DIR": ev})
            shutil.rmtree(ev, ignore_errors=True)
            sigs = sorted({l.split("sig=")[1].split(" ")[0] for l in outc.splitlines() if "violation sig=" in l})
            results[c] = {"exit": rcc, "signatures": sigs[:6], "wall_s": round(time.time() - t0, 1)}
            if rcc not in (0, 1):
                print(outc[-2000:])
        ok = rc0 == 0 and rc1 == 1 and "430 passed" in tests and wt in outi
        print(json.dumps({"name": name, "demo_unmodified_exit": rc0, "demo_patched_exit": rc1, "tests": tests,
                          "imports_from_scratch": wt in outi, "valid": ok, "checks": results}, indent=1))
        if ok:
            dst = os.path.join("/verif/seeded", name)
            os.makedirs(dst, exist_ok=True)
            for f in (("patch.diff", "demo.py") if os.path.abspath(src) != dst else ()):
                shutil.copy(os.path.join(src, f), os.path.join(dst, f))
            meta = json.load(open(os.path.join(src, "meta.json")))
            meta["property"] = prop
            meta["checks"] = checks
            caught = [c for c, r in results.items() if r["exit"] == 1]
            meta["expected"] = "caught" if caught else "missed"
            meta["verified"] = {"baseline_tests": tests, "demo_exit_unmodified": rc0, "demo_exit_patched": rc1,
                                "ran": [f"./check {c} quick (VERIF_REPO=<scratch worktree with the patch>)" for c in checks],
                                "results": results}
            json.dump(meta, open(os.path.join(dst, "meta.json"), "w"), indent=1)
        return 0 if ok else 1
    finally:
        subprocess.run(["git", "-C", "/repo", "worktree", "remove", "--force", scratch + "/wt"], capture_output=True)
        shutil.rmtree(scratch, ignore_errors=True)

sys.exit(main())
