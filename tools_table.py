#!/usr/bin/env python3
"""Prints the markdown table of seeded changes (DESIGN.md 12.8) from /verif/seeded/*/meta.json."""
import glob, json, os
print("| seeded change | property | what it does | needs | caught by (signatures) |\n|---|---|---|---|---|")
for m in sorted(glob.glob(os.path.join(os.path.dirname(os.path.abspath(__file__)), "seeded", "*", "meta.json"))):
    d = json.load(open(m)); name = os.path.basename(os.path.dirname(m)); res = d["verified"]["results"]
    caught = [f"{c}: {', '.join(r['signatures'][:2])}" for c, r in res.items() if r["exit"] == 1]
    print(f"| {name} | {d['property']} | {d['summary'][:150].replace('|','/')} | {d['needs'][:150].replace('|','/')} | {'; '.join(caught) if caught else '**missed**'} |")
