#!/usr/bin/env python3
"""Markdown table of seeded changes (DESIGN.md 12.8) from /verif/seeded/*/meta.json.

tools_table.py            prints the table
tools_table.py --write    replaces the text between the SEEDED-TABLE markers of DESIGN.md with it
"""
import glob, json, os, sys

ROOT = os.path.dirname(os.path.abspath(__file__))
rows = ["| seeded change | property | what it does | needs | caught by (signatures) |", "|---|---|---|---|---|"]
n = caught_n = 0
for m in sorted(glob.glob(os.path.join(ROOT, "seeded", "*", "meta.json"))):
    d = json.load(open(m)); name = os.path.basename(os.path.dirname(m)); res = d["verified"]["results"]
    caught = [f"{c}: {', '.join(r['signatures'][:2])}" for c, r in res.items() if r["exit"] == 1]
    if d.get("expected") == "neutralised":
        status = "*neutralised* - " + d.get("note", "")
    else:
        n += 1
        caught_n += 1 if caught else 0
        status = "; ".join(caught) if caught else "**missed**" + (" - " + d["note"] if d.get("note") else "")
    rows.append(f"| {name} | {d['property']} | {d['summary'][:150].replace('|','/')} | {d['needs'][:150].replace('|','/')} | {status.replace('|','/')} |")
rows.append("")
rows.append(f"{n} seeded changes that break their property on the current tree, {caught_n} caught.")
text = "\n".join(rows)
if "--write" in sys.argv:
    p = os.path.join(ROOT, "DESIGN.md")
    s = open(p).read()
    a, b = "<!-- SEEDED-TABLE-BEGIN -->", "<!-- SEEDED-TABLE-END -->"
    i, j = s.index(a) + len(a), s.index(b)
    open(p, "w").write(s[:i] + "\n" + text + "\n" + s[j:])
    print(f"DESIGN.md table rewritten: {n} changes, {caught_n} caught")
else:
    print(text)
