#!/usr/bin/env python3
"""Validate a behaviour-preserving change (a refactoring that keeps the property) and store it under /verif/benign/<name>/.

usage: tools_benign.py <name> <property> <dir with patch.diff meta.json> [--check Cxx ...] [--seeds 0 1]
In a scratch worktree of /repo (removed afterwards): the patch applies, the 430 baseline tests pass, and every listed check's
quick tier must exit 0 under each batch seed (VERIF_REPO=<worktree>).  Prints the outcome; stores the change when the patch
is valid, with the observed exits (a non-zero exit is either an over-strict check or a change that is not benign after all:
decide by hand and record the decision in meta.json "verdict").
"""
import json, os, shutil, subprocess, sys, tempfile, time

PY = "/venv/bin/python"
def run(cmd, cwd, env=None, timeout=3600):
    e = dict(os.environ); e.update(env or {})
    e.update(OMP_NUM_THREADS="1", OPENBLAS_NUM_THREADS="1", MKL_NUM_THREADS="1")
    p = subprocess.run(cmd, cwd=cwd, env=e, capture_output=True, text=True, timeout=timeout)
    return p.returncode, (p.stdout + p.stderr)

def main():
    name, prop, src = sys.argv[1:4]
    checks, seeds = [prop], ["0", "1"]
    if "--check" in sys.argv:
        i = sys.argv.index("--check") + 1
        checks = [a for a in sys.argv[i:] if a.startswith("C")]
    if "--seeds" in sys.argv:
        i = sys.argv.index("--seeds") + 1
        seeds = [a for a in sys.argv[i:] if a.isdigit()]
    scratch = tempfile.mkdtemp(prefix="hgxsim-benign-")
    try:
        subprocess.run(["git", "-C", "/repo", "worktree", "add", "-q", "--detach", scratch + "/wt", "HEAD"], check=True)
        wt = scratch + "/wt"
        env = {"PYTHONPATH": wt}
        rc, out = run(["git", "apply", os.path.join(os.path.abspath(src), "patch.diff")], wt)
        if rc != 0:
            print("PATCH DOES NOT APPLY", out); return 2
        rct, outt = run([PY, "-m", "pytest", "-q", "-p", "no:cacheprovider", "--timeout=900"], wt, env)
        tests = outt.strip().splitlines()[-1] if outt.strip() else ""
        results = {}
        for c in checks:
            for s in seeds:
                t0 = time.time()
                ev = tempfile.mkdtemp(prefix="hgxsim-ev-")
                rcc, outc = run(["/verif/check", c, "quick"], "/verif", {"VERIF_REPO": wt, "VERIF_EVIDENCE_DIR": ev, "VERIF_SEED": s})
                shutil.rmtree(ev, ignore_errors=True)
                sigs = sorted({l.split("sig=")[1].split(" ")[0] for l in outc.splitlines() if "violation sig=" in l})
                results[f"{c}/seed{s}"] = {"exit": rcc, "signatures": sigs[:6], "wall_s": round(time.time() - t0, 1)}
                if rcc != 0:
                    print(outc[-2500:])
        ok = "430 passed" in tests
        print(json.dumps({"name": name, "tests": tests, "valid": ok, "checks": results}, indent=1))
        if ok:
            dst = os.path.join("/verif/benign", name)
            os.makedirs(dst, exist_ok=True)
            if os.path.abspath(src) != dst:
                shutil.copy(os.path.join(src, "patch.diff"), os.path.join(dst, "patch.diff"))
            meta = json.load(open(os.path.join(src, "meta.json")))
            meta["property"] = prop
            meta["checks"] = checks
            meta["verified"] = {"baseline_tests": tests, "results": results}
            meta.setdefault("verdict", "benign" if all(r["exit"] == 0 for r in results.values()) else "UNDECIDED")
            json.dump(meta, open(os.path.join(dst, "meta.json"), "w"), indent=1)
        return 0 if ok else 1
    finally:
        subprocess.run(["git", "-C", "/repo", "worktree", "remove", "--force", scratch + "/wt"], capture_output=True)
        shutil.rmtree(scratch, ignore_errors=True)

sys.exit(main())
