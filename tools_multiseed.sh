#!/bin/sh
# usage: tools_multiseed.sh "C01 C02 ..." "0 1 2 3"   - runs the quick tier of each check under several batch seeds
# (evidence goes to a scratch directory); prints one line per run.  Development aid: a strengthened check must be clean
# under several VERIF_SEED values before it is committed.
for s in $2; do for p in $1; do
  VERIF_SEED=$s VERIF_EVIDENCE_DIR=${TMPDIR:-/tmp}/hgxsim-ev-ms ./check $p quick 2>&1 | grep -E "violation sig|VIOLATION|HARNESS|runs=[0-9]+ distinct" | cut -c1-220 | sed "s/^/seed=$s /"
done; done
rm -rf ${TMPDIR:-/tmp}/hgxsim-ev-ms
