#!/usr/bin/env python3
"""Write one sub-agent prompt per claimed property to <outdir>/prompt_<id>.txt (development aid for the seeded-change rounds).

usage: tools_prompts.py <outdir> <focus text file> [ids...]
The prompt holds only: the property text, the worktree rules, the focus of the round and one-line summaries of the changes
already collected for that property (so that a new one differs).  Nothing else from /verif is disclosed.
"""
import glob, json, os, sys

CLAIMED = ["C01", "C02", "C03", "C04", "C05", "C06", "C07", "C13", "C14", "C15", "C16", "C17", "C18", "C19"]
NOTES = {
    "C01": "Note: do not rely on what add_node / add_nodes does for a node that already exists when new metadata is supplied (that behaviour is unspecified).",
    "C02": "Note: do not rely on what add_node / add_nodes does for a node that already exists when new metadata is supplied (that behaviour is unspecified).",
    "C03": "Note: do not rely on what add_node / add_nodes does for a node that already exists when new metadata is supplied (that behaviour is unspecified).",
    "C04": "Note: do not rely on what add_node / add_nodes does for a node that already exists when new metadata is supplied (that behaviour is unspecified).",
}

def main():
    out, focus_file = sys.argv[1:3]
    ids = sys.argv[3:] or CLAIMED
    focus = open(focus_file).read().strip()
    per = {}
    if focus.startswith("{"):
        # a JSON object {"common": "...", "C01": "...", ...}: one focus text per property
        per = json.loads(focus)
        focus = per.get("common", "")
    props = {json.loads(l)["id"]: json.loads(l) for l in open("/verif/properties.jsonl")}
    for pid in ids:
        p = props[pid]
        wt = f"{out}/{pid}"
        have = []
        for m in sorted(glob.glob(f"/verif/seeded/{pid}-*/meta.json")):
            have.append(" - " + json.load(open(m))["summary"].strip().replace("\n", " "))
        files = p["anchors"]["files"]
        text = f"""You are working in a scratch git worktree of the pure-Python library hypergraphx at {wt}. Do ALL work inside {wt}; never touch /repo, /verif or any other directory, and do not read anything under /verif.
The library must be imported from the worktree: always run Python as `cd {wt} && PYTHONPATH={wt} OMP_NUM_THREADS=1 OPENBLAS_NUM_THREADS=1 /venv/bin/python ...` and confirm once with `cd {wt} && PYTHONPATH={wt} /venv/bin/python -c "import hypergraphx; print(hypergraphx.__file__)"` (it must print a path under {wt}).
IMPORTANT: do NOT use `git stash` (the stash is shared with other worktrees and other people are working in parallel). To switch between the modified and the unmodified state use `git diff -- hypergraphx > {wt}.patch`, `git apply -R {wt}.patch` and `git apply {wt}.patch`.

A semantic property that the library is supposed to satisfy:
TITLE: {p.get('title')}
STATEMENT: {p.get('statement')}
QUANTIFIER: {p['quantifier']['text']}
FILES IT IS ANCHORED IN: {', '.join(sorted(set(files)))}

YOUR TASK: produce ONE realistic change to the library source under {wt}/hypergraphx (a plausible bug a developer could introduce) such that
 (a) the property above is broken (some clause of its STATEMENT, within its QUANTIFIER),
 (b) the library still imports and the existing test suite stays green: `cd {wt} && PYTHONPATH={wt} /venv/bin/python -m pytest -q -p no:cacheprovider --timeout=900` must still report `430 passed`,
 (c) the breakage needs something SPECIFIC to manifest. It must NOT be something that ordinary first use exposes at once.
FOCUS for this round - please aim at: {(focus + " " + per.get(pid, "")).strip()}
{NOTES.get(pid, '')}
These changes have ALREADY been collected for this property; yours must be clearly different (different function AND different mechanism):
{chr(10).join(have)}
Do not edit or add tests under tests/. Keep the change small (a few lines, at most ~15).

DELIVERABLES, all inside {wt}/_mutant/ (create the directory):
 - patch.diff : the output of `git diff -- hypergraphx` (source change only)
 - demo.py    : a small standalone program that exits 0 on the UNMODIFIED library and exits 1 (printing what went wrong) with your change applied. Verify both states yourself; run it as `cd {wt} && PYTHONPATH={wt} OMP_NUM_THREADS=1 OPENBLAS_NUM_THREADS=1 /venv/bin/python _mutant/demo.py`.
 - meta.json  : {{"property": "{pid}", "summary": "<one sentence: what the change does>", "needs": "<what is needed for it to manifest>", "files": ["<changed files>"]}}
Leave the change APPLIED in the worktree when you finish. Reply with a summary of at most 6 lines.
"""
        open(f"{out}/prompt_{pid}.txt", "w").write(text)
        print(pid, len(have), "collected")

main()
